#!/usr/bin/env python3
"""re-run checks against every kept seeded change (scratch copy of /repo +
patch, VERIF_REPO), update meta.json and write seeded/RESULTS.md
usage: tools/seed_rerun.py [ids...]   (default: all; primary property plus the
properties already listed in meta.json)"""
import json, os, subprocess, sys, shutil, glob, re
V = '/verif'
ids = [] if sys.argv[1:] == ['--table-only'] else sys.argv[1:] or sorted(os.path.basename(d) for d in glob.glob(V + '/seeded/C*-*m[0-9]'))
only_primary = os.environ.get('SEED_ONLY_PRIMARY') == '1'
for sid in ids:
    d = '%s/seeded/%s' % (V, sid)
    meta = json.load(open(d + '/meta.json'))
    props = [meta['property']]
    if not only_primary:
        for c in meta.get('checks_run_against_it', []):
            p = c.split()[0]
            if p not in props:
                props.append(p)
    scr = '/dev/shm/seedrerun-' + sid
    shutil.rmtree(scr, ignore_errors=True)
    os.makedirs(scr)
    subprocess.check_call(['rsync', '-a', '--exclude', '.git', '--exclude', 'tests', '--exclude', 'sphinx', '/repo/', scr + '/'])
    pf = 'patch.rebased.diff' if os.path.exists(d + '/patch.rebased.diff') else 'patch.diff'
    r = subprocess.run('patch -s -p1 < %s/%s' % (d, pf), shell=True, cwd=scr)
    if r.returncode:
        print(sid, 'PATCH DOES NOT APPLY'); shutil.rmtree(scr); continue
    old = {c.split()[0]: c for c in meta.get('checks_run_against_it', [])}
    for p in props:
        out = subprocess.run([V + '/bin/check', p, '--tier', 'quick', '--no-evidence'],
                             env=dict(os.environ, VERIF_REPO=scr), capture_output=True, text=True).stdout
        first = next((l.strip() for l in out.splitlines() if l.startswith('  ' + p)), '')
        summ = next((l for l in out.splitlines() if ' quick: ' in l), '')
        wall = re.search(r'wall=([0-9.]+)s', summ)
        if 'VIOLATION' in out:
            old[p] = '%s CAUGHT (%ss): %s' % (p, wall.group(1) if wall else '?', first[:300])
        else:
            old[p] = '%s missed: %s' % (p, summ[:160])
        print(sid, old[p][:160], flush=True)
    shutil.rmtree(scr)
    meta['checks_run_against_it'] = [old[p] for p in old]
    json.dump(meta, open(d + '/meta.json', 'w'), indent=1)
# results table
rows = []
for d in sorted(glob.glob(V + '/seeded/C*-*m[0-9]')):
    m = json.load(open(d + '/meta.json'))
    caught = [c.split()[0] for c in m['checks_run_against_it'] if ' CAUGHT' in c]
    missed = [c.split()[0] for c in m['checks_run_against_it'] if ' missed' in c]
    rows.append('| %s | %s | %s | %s | %s |' % (m['id'], (m.get('summary') or '').replace('|', '/')[:150],
                (m.get('needs') or '').replace('|', '/').replace('\n', ' ')[:150], ' '.join(caught) or '-', ' '.join(missed) or '-'))
open(V + '/seeded/RESULTS.md', 'w').write(
    "# Seeded property-breaking changes (from independent sub-agents) and which quick checks catch them\n\n"
    "Each change was confirmed in a scratch worktree (suite passes with it, demo fails with it, demo passes without it) by tools/seed_confirm.sh.\n"
    "The id's property is the one the change was written to break; other columns list further checks that were run against it.\n\n"
    "| id | change | needs | caught by | not caught by |\n|---|---|---|---|---|\n" + '\n'.join(rows) + '\n')
