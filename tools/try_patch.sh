#!/bin/sh
# usage: tools/try_patch.sh [-R] <patch-file> <PROP>...   apply patch to /repo, run quick checks, undo
rev=""
if [ "$1" = "-R" ]; then rev="-R"; shift; fi
patch=$1; shift
git -C /repo apply $rev "$patch" || exit 2
for p in "$@"; do
  /verif/bin/check $p --tier quick --no-evidence 2>&1 | grep -E "VIOLATION|KNOWN|HARNESS|quick:" | head -4
done
git -C /repo checkout -- .
git -C /repo status --short | grep -v debug
