#!/usr/bin/env python3
"""count the scenarios of an engine-A check's tier without running them"""
import sys, time, multiprocessing as mp
sys.path.insert(0, '/verif')
from vf import spaces, framework
def n(args):
    pid, item = args
    mod = framework.load(pid)
    exp = getattr(mod, 'expand', None) or spaces.expand
    try:
        return sum(1 for _ in exp(item)), item.get('bound'), item.get('kind', 'mon')
    except Exception as e:
        return 0, 'ERR %r' % e, ''
if __name__ == '__main__':
    pid, tier = sys.argv[1], sys.argv[2]
    mod = framework.load(pid)
    items = list(mod.items(tier, 0))
    t = time.time()
    with mp.Pool(6) as pool:
        res = pool.map(n, [(pid, i) for i in items], 4)
    by = {}
    for c, b, k in res:
        by[(b, k)] = by.get((b, k), 0) + c
    print(pid, tier, 'items', len(items), 'scenarios', sum(c for c, _, _ in res), by, '%.0fs' % (time.time() - t))
