#!/bin/bash
# usage: tools/seed_confirm.sh <PID> <mN> [extra props to run...]
# 1. confirm in the scratch worktree /tmp/wt-<PID>: suite passes with the
#    change, demo fails with it and passes without
# 2. keep it under /verif/seeded/<PID>-<mN>/
# 3. apply to /repo, run the quick checks, undo; record which checks catch it
PID=$1; M=$2; shift 2
WT=${WTPREFIX:-/tmp/wt}-$PID
SRC=$WT/SEED/$M
OUT=/verif/seeded/$PID-${IDPREFIX}$M
[ -f $SRC/patch.diff ] || { echo "no patch in $SRC"; exit 2; }
cd $WT || exit 2
git checkout -q -- asynciojobs
git apply $SRC/patch.diff || { echo "patch does not apply in worktree"; exit 2; }
/venv/bin/python -m pytest -q -rf -p no:cacheprovider --timeout=900 tests > /tmp/seed-$PID-$M.tests 2>&1
TESTS=$(tail -1 /tmp/seed-$PID-$M.tests)
timeout 120 /venv/bin/python SEED/$M/demo.py > /tmp/seed-$PID-$M.demo1 2>&1; D1=$?
git checkout -q -- asynciojobs
timeout 120 /venv/bin/python SEED/$M/demo.py > /tmp/seed-$PID-$M.demo0 2>&1; D0=$?
rm -f tests/debug.dot tests/debug.svg
echo "$PID $M: tests: $TESTS | demo with change exit=$D1 | demo without exit=$D0"
if grep "^FAILED\|^ERROR" /tmp/seed-$PID-$M.tests | grep -v "test_nesting1" | grep -q .; then
  # timing-based tests fail under CPU load: re-run the failed ones twice before rejecting
  FAILED=$(grep "^FAILED" /tmp/seed-$PID-$M.tests | grep -v test_nesting1 | sed 's/^FAILED \([^ ]*\).*/\1/')
  git apply $SRC/patch.diff
  OK=1
  for t in $FAILED; do
    /venv/bin/python -m pytest -q -p no:cacheprovider --timeout=900 "$t" > /tmp/seed-$PID-$M.retest 2>&1 || /venv/bin/python -m pytest -q -p no:cacheprovider --timeout=900 "$t" > /tmp/seed-$PID-$M.retest 2>&1 || OK=0
  done
  git checkout -q -- asynciojobs; rm -f tests/debug.dot tests/debug.svg
  if [ $OK -eq 0 ]; then echo "REJECT: suite fails ($FAILED)"; exit 1; fi
  TESTS="$TESTS (failed under load, passed when re-run alone: $FAILED)"
fi
[ $D1 -ne 0 ] && [ $D0 -eq 0 ] || { echo "REJECT: demo does not discriminate"; exit 1; }
mkdir -p $OUT
cp $SRC/patch.diff $SRC/demo.py $OUT/
cp $SRC/meta.json $OUT/meta.agent.json 2>/dev/null
cd /verif
SCR=/dev/shm/seedrepo-$PID-$M
rm -rf $SCR; mkdir -p $SCR
rsync -a --exclude .git --exclude tests --exclude sphinx /repo/ $SCR/
( cd $SCR && patch -s -p1 < $OUT/patch.diff ) || { echo "patch does not apply to /repo tree"; rm -rf $SCR; exit 2; }
: > $OUT/checks.txt
for p in $PID "$@"; do
  VERIF_REPO=$SCR VERIF_NPROC=${SEED_NPROC:-8} /verif/bin/check $p --tier quick --no-evidence 2>&1 | grep -E "^  C|VIOLATION|KNOWN|HARNESS|quick:" | head -5 > /tmp/seed-$PID-$M.$p
  if grep -q VIOLATION /tmp/seed-$PID-$M.$p; then echo "$p CAUGHT: $(grep -m1 '^  C' /tmp/seed-$PID-$M.$p | cut -c1-300)" >> $OUT/checks.txt
  else echo "$p missed: $(tail -1 /tmp/seed-$PID-$M.$p | cut -c1-200)" >> $OUT/checks.txt; fi
done
rm -rf $SCR
cat $OUT/checks.txt
python3 - "$PID" "$M" "$TESTS" "$D1" "$D0" <<'PY'
import json,sys,os
pid,m,tests,d1,d0=sys.argv[1:6]
out='/verif/seeded/%s-%s%s'%(pid,os.environ.get('IDPREFIX',''),m)
try: a=json.load(open(out+'/meta.agent.json'))
except Exception: a={}
checks=open(out+'/checks.txt').read().splitlines()
meta={'property':pid,'id':'%s-%s%s'%(pid,os.environ.get('IDPREFIX',''),m),'summary':a.get('summary'),'needs':a.get('needs'),'files':a.get('files'),
 'confirmed':{'suite_with_change':tests,'demo_exit_with_change':int(d1),'demo_exit_without_change':int(d0),
   'how':'tools/seed_confirm.sh: patch applied in scratch worktree %s-%s, full pytest suite, demo.py with and without the change'%(os.environ.get('WTPREFIX','/tmp/wt'),pid)},
 'checks_run_against_it':checks}
json.dump(meta,open(out+'/meta.json','w'),indent=1)
os.remove(out+'/meta.agent.json') if os.path.exists(out+'/meta.agent.json') else None
os.remove(out+'/checks.txt')
PY
