MC_TECH = "stateless model checking of the implementation: exhaustive DFS over tie schedules (context-switch bound) x exhaustively generated scenario space, under a controlled asyncio loop"
claim('C03', "Every schedule (within the reported deviation bound; unbounded where reported exhausted) of every admissible scenario in the generated space is run on the real run(); deadlock and livelock are the explorer's own end states, so 'terminates' is decided, not sampled, inside the bounds.",
      MC_TECH, 'mc', "5 C03")
