#!/bin/sh
# run every quick check on the current tree with several seeds, fresh process each; report anything not silent
cd /verif
for seed in ${SEEDS:-1 2 3}; do
  for p in $(python3 -c "import json;print(' '.join(c['property_id'] for c in json.load(open('MANIFEST.json'))['checks']))"); do
    out=$(VERIF_SEED=$seed bin/check $p --tier quick --no-evidence 2>&1); rc=$?
    echo "$out" | tail -1 | sed "s/^/seed=$seed rc=$rc /" | cut -c1-200
    if [ $rc -ne 0 ]; then echo "$out" | grep -E "VIOLATION|HARNESS" | head -3; fi
  done
done
