#!/usr/bin/env python3
"""regenerate MANIFEST.json from the table below (which properties are
claimed, with which words)"""
import json, os
HERE = os.path.dirname(os.path.dirname(os.path.abspath(__file__)))
props = [json.loads(l) for l in open(os.path.join(HERE, 'properties.jsonl'))]

MC_NOTE = ("trusted base: CPython 3.12.1 asyncio primitives run for real on a "
           "BaseEventLoop subclass (virtual clock, hand-driven ready/timer queues); "
           "verification-side subclasses add logging only; bounds as reported in the evidence file")
SEQ_NOTE = ("trusted base: the Python reference model in vf/ (sets/dicts) and the enumerators; "
            "every transition is executed on the real objects and compared")

CLAIMS = {}
def claim(pid, text, technique, engine, ref, note=None):
    CLAIMS[pid] = dict(text=text, technique=technique, engine=engine, ref=ref,
                       note=note or (MC_NOTE if engine == 'mc' else SEQ_NOTE))

exec(open(os.path.join(HERE, 'tools', 'claims.py')).read())

NOT_APPLICABLE = {}
for p in props:
    if p['id'] not in CLAIMS:
        NOT_APPLICABLE[p['id']] = "check not built yet (model-checking design in DESIGN.md section 5); nothing is claimed for it"

man = {
 "version": 1,
 "setup_cmd": "cd /verif && bin/selftest",
 "hooks": {
  "guard": "ASYNCIOJOBS_VERIF",
  "enable": "no instrumentation in /repo is needed: checks import asynciojobs from /repo's working tree (VERIF_REPO overrides) and subclass its classes on the verification side",
  "baseline_off_cmd": "cd /repo && /venv/bin/python -m pytest -ra -q -p no:cacheprovider --timeout=900 --continue-on-collection-errors",
  "source_commits": [],
  "add_only": True
 },
 "engines": [
  {"name": "mc", "path": "vf/vloop.py vf/explore.py vf/scen.py vf/mc.py",
   "serves_properties": sorted(k for k, v in CLAIMS.items() if v['engine'] == 'mc'),
   "kind_free_text": "stateless model checker: DFS with prefix replay over all tie schedules (deviation-bounded) of the real co_run()/Window/co_shutdown under a controlled asyncio event loop with virtual time"},
  {"name": "seq", "path": "vf/seq.py",
   "serves_properties": sorted(k for k, v in CLAIMS.items() if v['engine'] == 'seq'),
   "kind_free_text": "explicit-state search over API operation sequences / exhaustive input enumeration on the real objects, compared step by step with a Python reference model"}
 ],
 "checks": [],
 "notes": "See DESIGN.md. Fix commits in /repo and known findings are listed in known_findings.json.",
 "not_applicable": [{"property_id": k, "reason": v} for k, v in sorted(NOT_APPLICABLE.items())]
}
for pid in sorted(CLAIMS):
    c = CLAIMS[pid]
    man["checks"].append({
        "property_id": pid,
        "quick_cmd": "bin/check %s --tier quick" % pid,
        "thorough_cmd": "bin/check %s --tier thorough" % pid,
        "evidence_file": "/verif/evidence/%s.json" % pid,
        "replay_cmd_template": "bin/check %s --replay {path}" % pid,
        "engine": c['engine'],
        "level_claimed": {"category": "model_checking", "text": c['text'], "design_ref": c['ref']},
        "level_note": c['note'],
        "technique": c['technique'],
    })
json.dump(man, open(os.path.join(HERE, 'MANIFEST.json'), 'w'), indent=1)
print("claimed:", sorted(CLAIMS), "not applicable:", sorted(NOT_APPLICABLE))
