"""
Engine A glue: explore scenarios, feed executions to a monitor, count.
"""

import collections

from . import scen, explore as X, gen

BEGIN = {'start', 'run_begin'}
FIN = {'end', 'raise', 'run_end', 'run_raise'}
EXIT = {'end', 'raise', 'cancel_done', 'run_end', 'run_raise', 'run_cancel'}
PROJ_KINDS = {'start', 'end', 'raise', 'cancel', 'cancel_done', 'run_begin',
              'run_end', 'run_raise', 'run_cancel', 'sd_begin', 'sd_end',
              'sd_cancel', 'ssd_begin', 'ssd_end', 'ssd_cancel', 'sched',
              'cancel2'}


class View:
    """indexed reading of one execution's log"""

    def __init__(self, ex):
        self.ex = ex
        b = ex.built
        self.built = b
        self.spec = b.spec
        self.parent = b.parent
        self.children = b.children
        self.top = b.top.vname
        self.log = ex.log
        self.by = collections.defaultdict(list)
        for e in ex.log:
            self.by[(e[3], e[4])].append(e)
        self.ret_seq = ex.return_seq

    # events are tuples (seq, t, iter, kind, name, data)
    def evs(self, kind, name):
        return self.by.get((kind, name), ())

    def first(self, kinds, name, before=None):
        best = None
        for k in kinds:
            for e in self.by.get((k, name), ()):
                if before is not None and e[0] >= before:
                    continue
                if best is None or e[0] < best[0]:
                    best = e
        return best

    def all(self, kinds, name):
        out = []
        for k in kinds:
            out.extend(self.by.get((k, name), ()))
        out.sort()
        return out

    def is_sched(self, name):
        return name in self.children

    def begin(self, name):
        return self.first(BEGIN, name)

    def fin(self, name):
        """the event by which `name` finished executing (returned or raised);
        None if it did not (cancelled, never started, still running)"""
        return self.first(FIN, name)

    def exit(self, name):
        return self.first(EXIT, name)

    def req(self, name):
        return self.spec[name].get('req', ())

    def siblings(self, name):
        p = self.parent[name]
        return [c for c in self.children[p] if c != name] if p else []

    def descendants(self, name):
        return self.built.descendants(name)

    def inside(self, name, seq):
        """is `name`'s body executing at log position seq (entered, not
        exited)?"""
        b = self.begin(name)
        if b is None or b[0] >= seq:
            return False
        x = self.exit(name)
        return x is None or x[0] >= seq

    def projected(self, kinds=PROJ_KINDS):
        return tuple((e[1], e[3], e[4]) for e in self.log if e[3] in kinds)

    def pretty(self, upto=None):
        out = []
        for e in self.log[:upto]:
            d = '' if e[5] is None else ' %r' % (e[5],)
            mark = '  --- run() returned ---\n' if e[0] == self.ret_seq else ''
            out.append('%s#%-3d t=%-3s it=%-3d %-10s %s%s'
                       % (mark, e[0], e[1], e[2], e[3], e[4], d))
        return '\n'.join(out)


def new_result(bound):
    r = {k: 0 for k in ('execs', 'states', 'trans', 'scenarios',
                        'exhausted_scenarios', 'replay_checked', 'nontrivial',
                        'outcomes', 'capped', 'max_tie')}
    r['violations'] = []
    r['samples'] = []
    r['bound'] = bound
    return r


def replay_record(scn, ex, **extra):
    rec = {'engine': 'mc', 'scenario': scn, 'scenario_short': gen.short(scn),
           'choices': ex.sigchoices()}
    rec.update(extra)
    return rec


def run_mc_item(item, monitor, snap=False, max_viol=6, max_execs=None,
                drain=True, expand=None):
    """item: {'scns': [...], 'bound': int|None}
    monitor(view) -> (list of (key, msg), trigger: bool)"""
    bound = item.get('bound')
    res = new_result(bound)
    for scn in (item['scns'] if expand is None else expand(item)):
        st = X.Stats()
        outs, nts = set(), set()
        pruned_before = 0
        sample = None
        for ex in X.explore(scn, bound, st, snap=snap, max_execs=max_execs,
                            drain=drain):
            v = View(ex)
            viols, trig = monitor(v)
            p = hash(v.projected())
            outs.add(p)
            if trig:
                nts.add(p)
                if sample is None and not res['samples']:
                    sample = {'scenario': gen.short(scn),
                              'schedule': ex.choices,
                              'outcome': repr(ex.outcome),
                              'log': ['t=%s %s %s' % x
                                      for x in v.projected()][:60]}
            if viols and len(res['violations']) < max_viol:
                seen = set()
                for key, msg in viols:
                    if key in seen:
                        continue
                    seen.add(key)
                    res['violations'].append({
                        'key': key,
                        'msg': '%s | scenario %s | schedule %s'
                               % (msg, gen.short(scn), ex.choices),
                        'replay': replay_record(scn, ex)})
        if sample is not None:
            res['samples'].append(sample)
        res['execs'] += st.execs
        res['states'] += st.points
        res['trans'] += st.trans
        res['scenarios'] += 1
        res['replay_checked'] += st.replay_checked
        res['capped'] += st.capped
        res['max_tie'] = max(res['max_tie'], st.max_tie)
        if st.pruned == 0 and st.capped == 0:
            res['exhausted_scenarios'] += 1
        res['outcomes'] += len(outs)
        res['nontrivial'] += len(nts)
    return res


def replay_mc(rep, monitor, snap=False, drain=True):
    ex = scen.run_one(rep['scenario'], rep['choices'], snap=snap, drain=drain)
    v = View(ex)
    viols, _ = monitor(v)
    return sorted({m for _, m in viols}), v


def chunked(seq, n):
    buf = []
    for x in seq:
        buf.append(x)
        if len(buf) >= n:
            yield buf
            buf = []
    if buf:
        yield buf
