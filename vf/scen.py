"""
Scenario = JSON description of a scheduler tree + behaviours.  This module
builds *real* asynciojobs objects from it (verification-side subclasses that
only add logging and a deterministic __hash__), and runs ONE execution of the
real run() under a VLoop with a given choice prefix.

scheduler node: {"k":"pure"|"nest", "name", "critical", "forever", "window",
                 "timeout", "sdt" (shutdown_timeout), "verbose", "req":[...],
                 "hash", "nodes":[...]}
job node:       {"k":"job"|"coro", "name", "dur": int|"never", "out":"ret"|"raise",
                 "critical", "forever", "cdelay", "sd", "req":[...], "hash"}
top:            {"tree": scheduler node, "thash": "asc"|"desc"|int}
"""

import sys
import os
import gc
import asyncio
import warnings

from . import vloop as VL

import datetime as _datetime
REPO = os.environ.get('VERIF_REPO', '/repo')
if REPO not in sys.path:
    sys.path.insert(0, REPO)
sys.dont_write_bytecode = True

import asynciojobs                                      # noqa: E402
from asynciojobs import (AbstractJob, Job, Scheduler,   # noqa: E402
                         PureScheduler, PrintJob, Watch)
import asynciojobs.purescheduler as _ps                 # noqa: E402
import asynciojobs.watch as _watchmod                   # noqa: E402

assert os.path.realpath(asynciojobs.__file__).startswith(
    os.path.realpath(REPO) + os.sep), \
    "asynciojobs imported from %s, not from %s" % (asynciojobs.__file__, REPO)

warnings.simplefilter('ignore')


class _Null:
    def write(self, *_):
        return 0

    def flush(self):
        pass

    encoding = 'utf-8'


NULL = _Null()


# ---------------------------------------------------------------- run context
class Ctx:
    def __init__(self, loop):
        self.loop = loop
        self.log = []
        self.snaps = []


CTX = None


def log(kind, name, data=None):
    c = CTX
    c.log.append((len(c.log), c.loop.vtime, c.loop.iter, kind, name, data))


class _TimeShim:
    """the library reads time.time(); give it the virtual clock"""
    @staticmethod
    def time():
        return CTX.loop.vtime


_ps.time = _TimeShim


class _DatetimeShim:
    """asynciojobs.watch reads datetime.now(): same virtual clock, so that a
    Watch attached to a scheduler is a deterministic part of the run"""
    _base = _datetime.datetime(2020, 1, 1)

    @classmethod
    def now(cls):
        c = CTX
        t = c.loop.vtime if c is not None and getattr(c, 'loop', None) \
            is not None else 0
        return cls._base + _datetime.timedelta(seconds=t)


_watchmod.datetime = _DatetimeShim


# -------------------------------------------------- behaviours (logging only)
class Val:
    """fresh unique return value"""
    __slots__ = ('name',)

    def __init__(self, name):
        self.name = name

    def __repr__(self):
        return "Val(%s)" % self.name


class Boom(Exception):
    pass


class BoomBase(BaseException):
    """an exception that does not derive from Exception"""


async def _body(name, spec):
    log('start', name)
    dur = spec['dur']
    try:
        if dur == 'never':
            await CTX.loop.create_future()
        elif dur > 0:
            await asyncio.sleep(dur)
    except asyncio.CancelledError:
        log('cancel', name)
        if spec.get('cx'):
            # the job does stop when cancelled, but by raising its own
            # exception instead of letting the CancelledError through
            exc = Boom(name + ':interrupted')
            log('cancel_done', name)
            log('xraise', name, exc)
            raise exc
        cdelay = spec.get('cdelay', 0)
        if cdelay:
            try:
                await asyncio.sleep(cdelay)
            except asyncio.CancelledError:
                log('cancel2', name)
                log('cancel_done', name)
                raise
        log('cancel_done', name)
        raise
    out = spec.get('out', 'ret')
    if out in ('raise', 'raise_empty', 'raise_base'):
        # 'raise_empty': an exception whose message is the empty string
        exc = Boom(name) if out == 'raise' else (
            Boom() if out == 'raise_empty' else BoomBase(name))
        log('raise', name, exc)
        raise exc
    if out == 'selfcancel':
        # the body ends by raising CancelledError of its own accord (nobody
        # cancelled it): its task ends up cancelled rather than finished
        log('selfcancel', name)
        raise asyncio.CancelledError()
    val = Val(name)
    log('end', name, val)
    return val


async def _sd_body(name, spec):
    log('sd_begin', name)
    sd = spec.get('sd', 0)
    if sd:
        try:
            if sd == 'never':
                await CTX.loop.create_future()
            else:
                await asyncio.sleep(sd)
        except asyncio.CancelledError:
            log('sd_cancel', name)
            raise
    log('sd_end', name)


class VJob(AbstractJob):
    def __init__(self, spec):
        self.vname = spec['name']
        self.vspec = spec
        self.vhash = spec['hash']
        AbstractJob.__init__(self, forever=spec.get('forever', False),
                             critical=spec.get('critical', False),
                             label=spec['name'])

    def __hash__(self):
        return self.vhash

    async def co_run(self):
        return await _body(self.vname, self.vspec)

    async def co_shutdown(self):
        return await _sd_body(self.vname, self.vspec)


class VCoroJob(Job):
    """the real coroutine-based Job class; only adds name and hash"""

    def __init__(self, spec):
        self.vname = spec['name']
        self.vspec = spec
        self.vhash = spec['hash']
        self._coros = (_body(spec['name'], spec), _sd_body(spec['name'], spec))
        Job.__init__(self, self._coros[0], coshutdown=self._coros[1],
                     forever=spec.get('forever', False),
                     critical=spec.get('critical', False),
                     label=spec['name'])

    def __hash__(self):
        return self.vhash


class VPrintJob(PrintJob):
    """the library's PrintJob (returns None after an optional sleep); only
    for jobs that return, with an integer duration"""

    def __init__(self, spec):
        self.vname = spec['name']
        self.vspec = spec
        self.vhash = spec['hash']
        dur = spec['dur']
        PrintJob.__init__(self, 'message', spec['name'],
                          sleep=dur if dur else None, banner='--',
                          label=spec['name'])
        self.critical = spec.get('critical', False)
        self.forever = spec.get('forever', False)

    def __hash__(self):
        return self.vhash

    async def co_run(self):
        log('start', self.vname)
        try:
            res = await PrintJob.co_run(self)
        except asyncio.CancelledError:
            log('cancel', self.vname)
            log('cancel_done', self.vname)
            raise
        log('end', self.vname, res)
        return res

    async def co_shutdown(self):
        log('sd_begin', self.vname)
        await PrintJob.co_shutdown(self)
        log('sd_end', self.vname)


def _wrap_sched(base):
    class V(base):
        def __init__(self, spec, jobs):
            self.vname = spec['name']
            self.vspec = spec
            self.vhash = spec['hash']
            kw = dict(jobs_window=spec.get('window'),
                      timeout=spec.get('timeout'),
                      shutdown_timeout=spec.get('sdt', 1),
                      verbose=spec.get('verbose', False))
            if spec.get('watch'):
                kw['watch'] = Watch(show_elapsed=False)
            if base is Scheduler:
                kw.update(forever=spec.get('forever', False),
                          critical=spec.get('critical', False),
                          label=spec['name'])
            base.__init__(self, *jobs, **kw)

        def __hash__(self):
            return self.vhash

        async def co_run(self):
            log('run_begin', self.vname)
            try:
                res = await base.co_run(self)
            except asyncio.CancelledError:
                log('run_cancel', self.vname)
                raise
            except BaseException as exc:
                log('run_raise', self.vname, exc)
                raise
            log('run_end', self.vname, res)
            return res

        async def co_shutdown(self):
            log('ssd_begin', self.vname)
            try:
                res = await base.co_shutdown(self)
            except asyncio.CancelledError:
                log('ssd_cancel', self.vname)
                raise
            log('ssd_end', self.vname, res)
            return res
    V.__name__ = 'V' + base.__name__
    return V


VSched = _wrap_sched(Scheduler)
VPure = _wrap_sched(PureScheduler)


# ------------------------------------------------------------------ building
class Built:
    """real objects for one scenario"""

    def __init__(self, scn):
        self.scn = scn
        self.obj = {}          # name -> object
        self.spec = {}         # name -> spec
        self.parent = {}       # name -> name of enclosing scheduler (None: top)
        self.children = {}     # scheduler name -> [names]
        self.top = self._build(scn['tree'], None)
        # optional pre-run history: extra requirement edges are added, the
        # graph is queried (which computes whatever the library caches), and
        # the edges are removed again; the run must then behave as if they
        # had never been there
        dangle = scn.get('dangle')
        if dangle:
            # requirements that leave their scheduler, removed by sanitize()
            for r, j in dangle:
                self.obj[j].requires(self.obj[r])
            self.top.sanitize()
        pre = scn.get('pre')
        late = scn.get('late')
        if pre or late:
            for r, j in pre or ():
                self.obj[j].requires(self.obj[r])
            # 'late' edges belong to the scenario's graph but are only wired
            # after the queries
            for r, j in late or ():
                self.obj[j].requires(self.obj[r], remove=True)
            for name in self.children:
                sch = self.obj[name]
                list(sch.exit_jobs())
                sch.check_cycles()
                for k in list(sch.jobs):
                    list(sch.successors(k))
                    sch.predecessors_upstream(k)
            self.top.list()
            for r, j in pre or ():
                self.obj[j].requires(self.obj[r], remove=True)
            for r, j in late or ():
                self.obj[j].requires(self.obj[r])

    def _build(self, spec, parent):
        name = spec['name']
        self.spec[name] = spec
        self.parent[name] = parent
        k = spec['k']
        if k in ('pure', 'nest'):
            self.children[name] = [n['name'] for n in spec['nodes']]
            kids = [self._build(n, name) for n in spec['nodes']]
            byname = {n['name']: o for n, o in zip(spec['nodes'], kids)}
            for n, o in zip(spec['nodes'], kids):
                reqs = [self.obj[r] if r in self.obj else byname[r]
                        for r in n.get('req', ())]
                if reqs:
                    o.requires(*reqs)
            build = self.scn.get('build')
            if build == 'addrev':
                # populated incrementally, dependents first
                obj = (VPure if k == 'pure' else VSched)(spec, [])
                order = self._topo(spec['nodes'])
                for n in reversed(order):
                    obj.add(byname[n])
            elif build == 'update':
                obj = (VPure if k == 'pure' else VSched)(spec, [])
                obj.update(list(reversed(kids)))
            elif build == 'lateattrs':
                # attributes assigned after construction, as the tests do
                bare = dict(spec, timeout=None, sdt=1, verbose=False,
                            window=None if spec.get('window') == 1 else 1)
                obj = (VPure if k == 'pure' else VSched)(bare, kids)
                obj.vspec = spec
                obj.jobs_window = spec.get('window')
                obj.timeout = spec.get('timeout')
                obj.shutdown_timeout = spec.get('sdt', 1)
                obj.verbose = spec.get('verbose', False)
            else:
                obj = (VPure if k == 'pure' else VSched)(spec, kids)
        elif k == 'job':
            obj = VJob(spec)
        elif k == 'coro':
            obj = VCoroJob(spec)
        elif k == 'print':
            if spec['dur'] == 'never' or spec.get('out', 'ret') != 'ret' \
                    or spec.get('cdelay') or spec.get('sd'):
                obj = VJob(spec)      # PrintJob cannot behave like that
            else:
                obj = VPrintJob(spec)
        else:
            raise ValueError(k)
        self.obj[name] = obj
        return obj

    @staticmethod
    def _topo(nodes):
        done, order = set(), []
        while len(order) < len(nodes):
            for n in nodes:
                if n['name'] not in done and set(n.get('req', ())) <= done:
                    done.add(n['name'])
                    order.append(n['name'])
        return order

    def is_sched(self, name):
        return name in self.children

    def atomic(self):
        return [n for n in self.spec if n not in self.children]

    def scheds(self):
        return list(self.children)

    def descendants(self, name):
        out = []
        for c in self.children.get(name, ()):
            out.append(c)
            out.extend(self.descendants(c))
        return out


class Exec:
    """everything observed in one execution"""
    __slots__ = ('scn', 'built', 'points', 'choices', 'log', 'outcome',
                 'tasks_pending_at_return', 'snaps', 'diag', 'return_seq',
                 'drain_log_start', 'explicit_sd', 'ntrans', 'niter',
                 'max_tie', 'wrapped_jobs', 'post')

    def sigchoices(self):
        return [[p[1], list(p[3])] for p in self.points]


def _job_of_task(task):
    """ground truth: which job a `wrapped` task belongs to"""
    coro = task.get_coro()
    if getattr(coro, '__qualname__', '').endswith('run_job.<locals>.wrapped'):
        frame = coro.cr_frame
        if frame is not None:
            return frame.f_locals.get('job')
    return None


def _snap(built):
    out = []
    for name, job in built.obj.items():
        if name == built.top.vname:
            continue
        try:
            done = job.is_done()
            res = job.result() if done else None
        except Exception as exc:               # pragma: no cover
            done, res = 'EXC:%r' % (exc,), None
        out.append((name, job.is_idle(), job.is_scheduled(),
                    job.is_running(), done, job.raised_exception(), res))
    return out


_ncoll = [0]


def _collect():
    # cycles (loop <-> tasks <-> frames) are garbage after each execution;
    # reclaim them regularly or the long-lived worker slows down
    _ncoll[0] += 1
    if _ncoll[0] % 64 == 0:
        gc.collect()
    else:
        gc.collect(0)


def run_one(scn, prefix=(), snap=False, drain=True, max_iter=4000):
    """one complete execution of the real run() for this scenario"""
    global CTX
    chooser = VL.Chooser(prefix)
    loop = VL.VLoop(chooser, task_hash_mode=scn.get('thash', 'asc'),
                    max_iter=max_iter)
    ctx = CTX = Ctx(loop)
    asyncio.set_event_loop(loop)
    old_stdout = sys.stdout
    sys.stdout = NULL
    ex = Exec()
    ex.scn = scn
    try:
        built = Built(scn)
        ex.built = built
        task_job = {}
        creq = {}
        peek = scn.get('peek')

        def on_iter():
            # record the job of every new `wrapped` task (ground truth for
            # "scheduled"), and the predicate snapshot
            for t in loop.all_tasks_created[len(task_job):]:
                j = _job_of_task(t)
                task_job[t] = j
                if j is not None:
                    log('sched', j.vname, t._vidx)
            # ground truth for "cancellation requested": Task.cancelling()
            for t, j in task_job.items():
                if j is not None:
                    n = t.cancelling()
                    if n > creq.get(t, 0):
                        creq[t] = n
                        log('creq', j.vname, n)
            if peek:
                # read-only queries; their order rotates with the iteration
                # so that each of them is, at some iterations, the last one
                # issued before the scheduler's next step
                queries = []
                for name in built.children:
                    sch = built.obj[name]
                    queries.append(lambda sch=sch: list(sch.exit_jobs()))
                    queries.append(lambda sch=sch: sch.stats())
                    queries.append(lambda sch=sch: [
                        list(sch.successors(k)) for k in list(sch.jobs)[:2]])
                queries.append(built.top.list)
                queries.append(lambda: repr(built.top))
                r = {'exits': 1, 'succ': 3, 'list': 0}.get(peek, 0) \
                    if len(built.children) == 1 else loop.iter
                r %= len(queries)
                for q in queries[r:] + queries[:r]:
                    q()
            if snap:
                ctx.snaps.append((len(ctx.log), loop.vtime, loop.iter,
                                  _snap(built)))
        loop.on_iter = on_iter
        first_ok = True
        if scn.get('rerun'):
            # non-initial state: the same tree has been run once already, to
            # completion and along the default schedule; only the second run
            # is explored and observed
            chooser.frozen = True
            try:
                built.top.run()
                loop.drive(None)
            except (VL.Deadlock, VL.Horizon):
                first_ok = False
            except Exception:
                pass
            if scn['rerun'] == 'emptied':
                # ... and has then been emptied: the second run is the run of
                # an empty scheduler that carries the first run's state
                for j in list(built.top.jobs):
                    built.top.remove(j)
            chooser.frozen = False
            del ctx.log[:]
            del ctx.snaps[:]
        try:
            if not first_ok:
                raise VL.Horizon()
            res = built.top.run()
            ex.outcome = ('return', res)
        except VL.Deadlock:
            ex.outcome = ('deadlock', None)
        except VL.Horizon:
            ex.outcome = ('horizon', None)
        except VL.ReplayDivergence:
            raise
        except BaseException as exc:
            ex.outcome = ('raise', exc)
        on_iter()
        ex.return_seq = len(ctx.log)
        ex.tasks_pending_at_return = [
            (t._vidx, getattr(task_job.get(t), 'vname', None),
             getattr(t.get_coro(), '__qualname__', '?'))
            for t in loop.all_tasks_created if not t.done()]
        ex.post = _post(built)
        ex.drain_log_start = len(ctx.log)
        ex.explicit_sd = None
        chooser.frozen = True
        if drain and ex.outcome[0] in ('return', 'raise'):
            try:
                loop.drive(None)
                log('drain_done', '')
                try:
                    ex.explicit_sd = ('return', loop.run_until_complete(
                        built.top.co_shutdown()))
                except (VL.Deadlock, VL.Horizon) as exc:
                    ex.explicit_sd = (type(exc).__name__, None)
                except BaseException as exc:
                    ex.explicit_sd = ('raise', exc)
                loop.drive(None)
            except VL.Horizon:
                log('drain_horizon', '')
        on_iter()
        ex.wrapped_jobs = [(t._vidx, j.vname) for t, j in task_job.items()
                           if j is not None]
    finally:
        sys.stdout = old_stdout
        nlog = len(ctx.log)
        try:
            loop.teardown()
        except Exception:
            pass
        asyncio.set_event_loop(None)
    _collect()
    ex.points = chooser.points
    ex.choices = chooser.choices
    ex.log = ctx.log[:nlog]
    ex.snaps = ctx.snaps
    ex.diag = loop.diag
    ex.ntrans = loop.ntransitions
    ex.niter = loop.iter
    ex.max_tie = loop.max_tie
    return ex


def _post(built):
    """inspection API + diagnosis right after run() returned"""
    out = {'jobs': {}, 'scheds': {}}
    for name, job in built.obj.items():
        if name != built.top.vname:
            try:
                done = job.is_done()
                out['jobs'][name] = dict(
                    idle=job.is_idle(), scheduled=job.is_scheduled(),
                    running=job.is_running(), done=done,
                    exc=job.raised_exception(),
                    result=job.result() if done else None)
            except Exception as exc:           # pragma: no cover
                out['jobs'][name] = dict(error=repr(exc))
        if built.is_sched(name):
            out['scheds'][name] = dict(
                fto=job.failed_time_out(), fcrit=job.failed_critical(),
                why=job.why())
    return out
