"""self-test of the harness (MANIFEST.setup_cmd): nothing to build, so this
only checks that the machinery behaves: the explorer enumerates the schedule
space of a toy completely and without duplicates, replays are deterministic,
and the package under test is imported from the working tree"""
import sys
from . import scen, explore, gen


def main():
    scn = {'tree': gen.S('top', 0, [gen.J('a', 0), gen.J('b', 1),
                                   gen.J('c', 2, req=['a', 'b'])], k='pure'),
           'thash': 'asc'}
    counts = []
    for bound in (0, 1, 2, None):
        seen = set()
        n = 0
        for ex in explore.explore(scn, bound, replay_every=1):
            key = tuple(ex.choices)
            assert key not in seen, "schedule produced twice"
            seen.add(key)
            n += 1
        counts.append(n)
    assert counts[0] == 1 and counts == sorted(counts), counts
    # two jobs tied at t=1: the unbounded space must contain both delivery
    # orders and the split-iteration schedules
    assert counts[-1] >= 6, counts
    ex1 = scen.run_one(scn, [1])
    ex2 = scen.run_one(scn, ex1.sigchoices())
    assert explore.logsig(ex1) == explore.logsig(ex2)
    # the DOT-subset parser on a hand-written sample, and against the dot
    # binary's verdict on a broken one
    from . import dotparse, seq
    sample = ('digraph g{\ncompound=true;\ngraph [];\n// a comment\n'
              '1 [label="1: a \\"q\\"\nnl",shape="box"]\n'
              'subgraph cluster_2{\ngraph [label="2: n"];\n3 [label="3: x"]\n}'
              '\n1 -> 3 [lhead=cluster_2];\n}\n')
    g = dotparse.parse(sample)
    assert [n for n, _ in g.nodes] == ['1'] and g.nodes[0][1]['label'] == \
        '1: a "q"\nnl', g.nodes
    assert g.subs[0].name == 'cluster_2' and g.edges == [
        ('1', '3', {'lhead': 'cluster_2'})], (g.subs, g.edges)
    try:
        dotparse.parse('digraph g{ 1 [label="unterminated] }')
        raise AssertionError("parser accepted an unterminated string")
    except dotparse.DotError:
        pass
    # the reference model
    assert seq.acyclic('abc', {('a', 'b'), ('b', 'c')})
    assert not seq.acyclic('abc', {('a', 'b'), ('b', 'a')})
    assert seq.closure('abc', {('a', 'b'), ('b', 'c')}) == {
        ('a', 'b'), ('b', 'c'), ('a', 'c')}
    assert len(gen.dags(3)) == 25 and len(gen.dags(4)) == 543
    print("selftest ok: schedules per bound", counts,
          "asynciojobs from", scen.asynciojobs.__file__)
    return 0


if __name__ == '__main__':
    sys.exit(main())
