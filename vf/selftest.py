"""self-test of the harness (MANIFEST.setup_cmd): nothing to build, so this
only checks that the machinery behaves: the explorer enumerates the schedule
space of a toy completely and without duplicates, replays are deterministic,
and the package under test is imported from the working tree"""
import sys
from . import scen, explore, gen


def main():
    scn = {'tree': gen.S('top', 0, [gen.J('a', 0), gen.J('b', 1),
                                   gen.J('c', 2, req=['a', 'b'])], k='pure'),
           'thash': 'asc'}
    counts = []
    for bound in (0, 1, 2, None):
        seen = set()
        n = 0
        for ex in explore.explore(scn, bound, replay_every=1):
            key = tuple(ex.choices)
            assert key not in seen, "schedule produced twice"
            seen.add(key)
            n += 1
        counts.append(n)
    assert counts[0] == 1 and counts == sorted(counts), counts
    # two jobs tied at t=1: the unbounded space must contain both delivery
    # orders and the split-iteration schedules
    assert counts[-1] >= 6, counts
    ex1 = scen.run_one(scn, [1])
    ex2 = scen.run_one(scn, ex1.sigchoices())
    assert explore.logsig(ex1) == explore.logsig(ex2)
    print("selftest ok: schedules per bound", counts,
          "asynciojobs from", scen.asynciojobs.__file__)
    return 0


if __name__ == '__main__':
    sys.exit(main())
