"""
Property monitors over one execution (View).  Each returns
(violations: list of (key, message), trigger: bool).

Only what the property statements say is asserted; see DESIGN.md §5/§6.
Event tuples are (seq, t, iter, kind, name, data).
"""

from . import mc

SEQ, T, IT, KIND, NAME, DATA = range(6)


# ------------------------------------------------------------------ helpers
def scheds_run(v):
    """schedulers whose run began"""
    return [s for s in v.children if v.evs('run_begin', s)]


def main_end(v, s):
    """(seq, t) at which scheduler s left its main phase: first cancellation
    it delivered to a child, its shutdown broadcast, or its run's exit"""
    cands = []
    for k in ('ssd_begin', 'run_end', 'run_raise', 'run_cancel'):
        for e in v.evs(k, s):
            cands.append(e)
    for c in v.children[s]:
        for k in ('cancel', 'run_cancel', 'creq'):
            for e in v.evs(k, c):
                cands.append(e)
    if not cands:
        return None
    return min(cands)


def window_of(v, s):
    w = v.spec[s].get('window')
    return w if w else None


def running_profile(v, s):
    """yield (event, running count after it) over events of direct children"""
    kids = set(v.children[s])
    inside = set()
    for e in v.log:
        n = e[NAME]
        if n in kids:
            if e[KIND] in mc.BEGIN:
                inside.add(n)
                yield e, len(inside)
            elif e[KIND] in mc.EXIT:
                inside.discard(n)
                yield e, len(inside)


# ---------------------------------------------------------------------- C01
def c01(v):
    viols = []
    trig = False
    for name in v.spec:
        if name == v.top:
            continue
        reqs = v.req(name)
        begins = v.all(mc.BEGIN, name)
        par = v.parent[name]
        for b in begins:
            # the enclosing scheduler's run must have begun
            pb = v.begin(par)
            if pb is None or pb[SEQ] > b[SEQ]:
                viols.append(('c01:before-parent-run',
                              "%s begins (#%d) before the run of its scheduler "
                              "%s began" % (name, b[SEQ], par)))
            for r in reqs:
                f = v.fin(r)
                if f is not None and f[SEQ] < b[SEQ] and v.is_sched(r):
                    busy = [d for d in v.descendants(r)
                            if v.inside(d, b[SEQ])]
                    if busy:
                        viols.append((
                            'c01:nested-run-not-over',
                            "%s begins at #%d t=%s although %s, inside its "
                            "requirement %s, %s still executing"
                            % (name, b[SEQ], b[T], busy, r,
                               'is' if len(busy) == 1 else 'are')))
                if f is None or f[SEQ] > b[SEQ]:
                    viols.append((
                        'c01:start-before-req',
                        "%s begins at #%d t=%s although its requirement %s %s"
                        % (name, b[SEQ], b[T], r,
                           "has not finished" if f is None else
                           "only finishes at #%d t=%s" % (f[SEQ], f[T]))))
        if begins and (any(v.is_sched(r) for r in reqs) or (
                len(reqs) >= 2 and
                len({v.fin(r)[IT] for r in reqs if v.fin(r)}) >= 2)):
            trig = True
        if begins and v.is_sched(name) and reqs:
            trig = True
    return viols, trig


# ---------------------------------------------------------------------- C02
def c02(v):
    viols = []
    trig = False
    for name in v.spec:
        if name == v.top:
            continue
        nb = len(v.all(mc.BEGIN, name))
        ns = len(v.evs('sched', name))
        if nb > 1:
            viols.append(('c02:body-twice', "body of %s entered %d times"
                          % (name, nb)))
        if ns > 1:
            viols.append(('c02:task-twice', "%d tasks were created for %s"
                          % (ns, name)))
    for s in scheds_run(v):
        ends = v.evs('run_end', s)
        if not ends or ends[0][DATA] is not True:
            continue
        end = ends[0]
        tie = False
        fins = []
        for c in v.children[s]:
            spec = v.spec[c]
            f = v.fin(c)
            if f is None and v.evs('selfcancel', c):
                # a body that ended by raising CancelledError by itself did
                # run to its own end
                f = v.evs('selfcancel', c)[0]
            if f is not None:
                fins.append(f)
            if spec.get('forever'):
                if f is not None and f[SEQ] < end[SEQ]:
                    trig = True
                continue
            nb = len(v.all(mc.BEGIN, c))
            if nb != 1:
                viols.append(('c02:success-not-started',
                              "run of %s reports success but non-forever job "
                              "%s was started %d times" % (s, c, nb)))
                continue
            if f is None or f[SEQ] > end[SEQ]:
                viols.append(('c02:success-not-finished',
                              "run of %s reports success at #%d but non-forever"
                              " job %s %s" % (s, end[SEQ], c,
                                              "never finished" if f is None
                                              else "finished later (#%d)"
                                              % f[SEQ])))
            elif f[KIND] in ('raise', 'run_raise') and spec.get('critical'):
                viols.append(('c02:success-critical-raised',
                              "run of %s reports success although critical job "
                              "%s raised" % (s, c)))
        ts = [f[T] for f in fins]
        if len(set(ts)) < len(ts) or window_of(v, s):
            trig = True
    return viols, trig


# ---------------------------------------------------------------------- C07
def c07(v):
    viols = []
    trig = False
    for s in scheds_run(v):
        w = window_of(v, s)
        if not w:
            continue
        peak = 0
        for e, n in running_profile(v, s):
            peak = max(peak, n)
            if n > w:
                viols.append(('c07:window-exceeded',
                              "%d direct jobs of %s execute simultaneously at "
                              "#%d t=%s, window is %d" % (n, s, e[SEQ], e[T], w)))
                break
        # queued: a task exists for a job whose body was entered strictly
        # later (iteration-wise) than usual, or never
        for c in v.children[s]:
            for se in v.evs('sched', c):
                b = v.begin(c)
                if b is None or b[IT] > se[IT] + 1:
                    trig = True
    return viols, trig


def legit_end_at(v, s, t):
    """did something that may legitimately end the main phase of s happen
    at instant t: a critical raise, the expiry, the last non-forever
    completion, or a cancellation from outside"""
    c, f, E = causes(v, s)
    if c is not None and c[T] == t:
        return True
    if E is not None and E == t:
        return True
    if f is not None and f[T] == t:
        return True
    for e in v.all(('run_cancel', 'creq'), s):
        if e[T] == t:
            return True
    return False


# ---------------------------------------------------------------------- C12
def c12(v):
    viols = []
    trig = False
    for s in scheds_run(v):
        rb = v.begin(s)
        me = main_end(v, s)
        w = window_of(v, s)
        kids = v.children[s]
        if not w:
            for c in kids:
                reqs = v.req(c)
                fins = [v.fin(r) for r in reqs]
                if any(f is None for f in fins):
                    continue
                due_t = max([f[T] for f in fins], default=rb[T])
                due_seq = max([f[SEQ] for f in fins], default=rb[SEQ])
                b = v.begin(c)
                if len(reqs) >= 2:
                    trig = True
                if b is not None:
                    if b[T] != due_t:
                        viols.append((
                            'c12:late-start',
                            "%s starts at t=%s but its last requirement "
                            "finished (or its scheduler began) at t=%s"
                            % (c, b[T], due_t)))
                elif not any(not v.spec[k].get('forever') for k in kids):
                    pass    # no non-forever job: when such a run ends is
                    #         not specified, so "never started" is not judged
                elif me is None or due_t < me[T] or (
                        due_t == me[T] and not legit_end_at(v, s, due_t)):
                    # eligible strictly before the scheduler left its main
                    # phase (or the run never ended, or nothing that may end
                    # a run happened at that instant), yet never started
                    viols.append((
                        'c12:never-started',
                        "%s is eligible since t=%s (#%d) in unwindowed %s but "
                        "never starts (main phase %s)"
                        % (c, due_t, due_seq, s,
                           "never ends" if me is None else
                           "ends at t=%s" % me[T])))
        else:
            # windowed: judge the state at the end of every instant at which
            # the scheduler is (still, strictly) in its main phase
            times = sorted({e[T] for e in v.log if e[SEQ] < v.ret_seq})
            for t in times:
                if t < rb[T]:
                    continue
                if me is not None and t >= me[T]:
                    break
                begun = {c for c in kids
                         if (v.begin(c) is not None and v.begin(c)[T] <= t)}
                inside = {c for c in begun
                          if v.exit(c) is None or v.exit(c)[T] > t}
                # a body that is entered and left within the instant is not
                # inside at its end
                waiting = [c for c in kids if c not in begun and all(
                    v.fin(r) is not None and v.fin(r)[T] <= t
                    for r in v.req(c))]
                if waiting:
                    trig = True
                if waiting and len(inside) < w:
                    viols.append((
                        'c12:slot-wasted',
                        "at the end of instant t=%s scheduler %s (window %d) "
                        "runs %d job(s) %s while eligible %s wait(s)"
                        % (t, s, w, len(inside), sorted(inside), waiting)))
                    break
    return viols, trig


# ---------------------------------------------------------------------- C14
def c14(v):
    viols = []
    trig = False
    ex = v.ex
    prev = {}

    def truth(name, pos):
        sched = any(e[SEQ] < pos for e in v.evs('sched', name))
        b = v.begin(name)
        run = b is not None and b[SEQ] < pos
        f = v.fin(name)
        done = f is not None and f[SEQ] < pos
        # a job to which a cancellation was delivered while it was pending
        # is a cancelled job, whatever its coroutine then returned (the
        # jobs of the alphabet honour cancellation; a scheduler must too)
        cq = v.evs('creq', name)
        if done and cq and cq[0][SEQ] < f[SEQ]:
            done = 'cancelled'
        return sched, run, done, f

    def judge(where, pos, name, idle, scheduled, running, done, exc, res):
        nonlocal trig
        gs, gr, gd, f = truth(name, pos)
        bad = []
        if bool(scheduled) != gs:
            bad.append("is_scheduled()=%r but %s" % (
                scheduled, "a task exists for it" if gs else "never scheduled"))
        if bool(idle) != (not gs):
            bad.append("is_idle()=%r but %s" % (
                idle, "it was scheduled" if gs else "it was never scheduled"))
        if bool(running) != gr:
            bad.append("is_running()=%r but its body %s" % (
                running, "was entered" if gr else "was not entered"))
        if gd == 'cancelled':
            gd = False
            if done:
                bad.append("is_done()=%r for a job that was cancelled (the "
                           "cancellation was delivered at #%d, before its "
                           "coroutine ended)" % (done,
                                                 v.evs('creq', name)[0][SEQ]))
                done = False
        if done is not True and done is not False:
            bad.append("is_done() -> %r" % (done,))
        elif done != gd:
            bad.append("is_done()=%r but the body %s" % (
                done, "finished" if gd else "did not finish by returning or "
                "raising"))
        if done is True and not running or running and not scheduled:
            bad.append("predicates do not nest: scheduled=%r running=%r "
                       "done=%r" % (scheduled, running, done))
        if gd:
            if f[KIND] in ('end', 'run_end'):
                if res is not f[DATA]:
                    bad.append("result() is %r, the body returned %r"
                               % (res, f[DATA]))
                if exc is not None:
                    bad.append("raised_exception() is %r after a normal "
                               "return (expected None)" % (exc,))
            else:
                if exc is not f[DATA]:
                    bad.append("raised_exception() is %r, the body raised %r"
                               % (exc, f[DATA]))
        elif exc is not None:
            bad.append("raised_exception() is %r for a job that has not "
                       "raised (expected None)" % (exc,))
        if gs and not gr:
            trig = True
        p = prev.get(name)
        if p is not None:
            for label, old, new in (('is_scheduled', p[0], scheduled),
                                    ('is_running', p[1], running),
                                    ('is_done', p[2], done)):
                if old and not new:
                    bad.append("%s reverted from True to %r" % (label, new))
        prev[name] = (scheduled, running, done)
        for m in bad:
            key = 'c14:' + m.split('(')[0].split(' ')[0]
            if 'raised_exception() is False' in m:
                key = 'c14:raised_exception-False'
            viols.append((key, "%s, %s (#%d): %s" % (name, where, pos, m)))

    for pos, t, it, rows in ex.snaps:
        if pos > v.ret_seq:
            break
        for row in rows:
            judge("loop iteration %d t=%s" % (it, t), pos, *row)
    for name, p in ex.post['jobs'].items():
        if 'error' in p:
            viols.append(('c14:api-raised', "%s: inspection API raised %s"
                          % (name, p['error'])))
            continue
        judge("after run()", v.ret_seq, name, p['idle'], p['scheduled'],
              p['running'], p['done'], p['exc'], p['result'])
    return viols, trig


# --------------------------------------------------- causes of a run's end
def own_exit(v, s):
    """exit event of s's run, or None"""
    return v.exit(s)


def causes(v, s):
    """(c, f, E) for the run of scheduler s:
    c = first raise of a critical direct job, f = the completion that makes
    all non-forever direct jobs finished, E = expiry instant (or None);
    c and f only count if they precede the run's own exit"""
    kids = v.children[s]
    x = v.exit(s)
    lim = x[SEQ] if x is not None else None
    # what happens once the scheduler is tidying up (jobs answering their
    # cancellation) is a consequence of the decision, not a cause
    sb = v.evs('ssd_begin', s)
    if sb and (lim is None or sb[0][SEQ] < lim):
        lim = sb[0][SEQ]
    for k in kids:
        for e in v.all(('creq',), k):
            if lim is None or e[SEQ] < lim:
                lim = e[SEQ]
    c = None
    for k in kids:
        if v.spec[k].get('critical'):
            for e in v.all(('raise', 'run_raise'), k):
                if lim is not None and e[SEQ] > lim:
                    continue
                if c is None or e[SEQ] < c[SEQ]:
                    c = e
    f = None
    regular = [k for k in kids if not v.spec[k].get('forever')]
    fins = [v.fin(k) for k in regular]
    if regular and all(e is not None and (lim is None or e[SEQ] < lim)
                       for e in fins):
        f = max(fins)
    rb = v.begin(s)
    T = v.spec[s].get('timeout')
    E = None if T is None or rb is None else rb[T_] + T
    return c, f, E


T_ = T


def sd_phase(v, s):
    """exact length of a flat scheduler's shutdown phase"""
    kids = v.children[s]
    if not kids:
        return 0
    m = max(v.spec[k].get('sd', 0) for k in kids)
    sdt = v.spec[s].get('sdt', 1)
    return m if sdt is None else min(m, sdt)


def sd_bound(v, s):
    m = 0
    for k in v.children[s]:
        m = max(m, sd_bound(v, k) if v.is_sched(k) else v.spec[k].get('sd', 0))
    sdt = v.spec[s].get('sdt', 1)
    return m if sdt is None else min(m, sdt)


def cancel_bound(v, n):
    if not v.is_sched(n):
        return v.spec[n].get('cdelay', 0)
    return max([cancel_bound(v, k) for k in v.children[n]], default=0) \
        + sd_bound(v, n)


def is_flat(v, s):
    return not any(v.is_sched(k) for k in v.children[s])


CANCELS = ('cancel', 'run_cancel', 'creq')


def check_abort(v, s, seq0, t0, tag, what, cause_iter=None):
    """common to C05/C08/C09: from log position seq0 (virtual instant t0)
    scheduler s must start nothing more, cancel what runs, and end after the
    cancellations and the bounded shutdown phase.  `only` restricts the
    jobs that must be cancelled (C09: all remaining are forever jobs)"""
    viols = []
    kids = v.children[s]
    cancelled_cd = 0
    for k in kids:
        for b in v.all(mc.BEGIN, k):
            if b[SEQ] <= seq0:
                continue
            if b[T] != t0:
                viols.append((tag + ':starts-after',
                              "%s starts at t=%s (#%d) although %s at t=%s"
                              % (k, b[T], b[SEQ], what, t0)))
                continue
            x = [e for e in v.all(CANCELS + tuple(mc.FIN), k)
                 if e[SEQ] > b[SEQ]]
            if not x or x[0][T] != t0:
                viols.append((tag + ':starts-after',
                              "%s enters its body (#%d) after %s at t=%s and is"
                              " not cancelled at that instant"
                              % (k, b[SEQ], what, t0)))
            elif x[0][KIND] in ('cancel', 'creq') and not v.is_sched(k):
                cancelled_cd = max(cancelled_cd, v.spec[k].get('cdelay', 0))
        if v.inside(k, seq0 + 1):
            x = [e for e in v.all(CANCELS + tuple(mc.FIN), k)
                 if e[SEQ] > seq0]
            if not x or x[0][T] != t0:
                viols.append((tag + ':not-cancelled',
                              "%s is executing when %s at t=%s (#%d) but %s"
                              % (k, what, t0, seq0,
                                 "is never cancelled" if not x else
                                 "only gets %s at t=%s" % (x[0][KIND],
                                                           x[0][T]))))
            elif x[0][KIND] in ('cancel', 'creq') and not v.is_sched(k):
                cancelled_cd = max(cancelled_cd, v.spec[k].get('cdelay', 0))
            # a job to which the cancellation was delivered must end up
            # cancelled, not completed (a body finishing by itself in the same
            # instant is logged BEFORE any cancellation request)
            cq = [e for e in v.evs('creq', k) if e[SEQ] > seq0]
            fin = [e for e in v.all(tuple(mc.FIN), k) if e[SEQ] > seq0]
            if cq and fin and fin[0][SEQ] > cq[0][SEQ] \
                    and not v.spec[k].get('cx'):
                viols.append((tag + ':cancellation-swallowed',
                              "%s is cancelled at t=%s (#%d) when %s, yet it "
                              "then completes normally (%s at #%d)"
                              % (k, cq[0][T], cq[0][SEQ], what, fin[0][KIND],
                                 fin[0][SEQ])))
    # no task is created for a job of s in a later loop iteration than the
    # one of the cause (the library says STARTING at that point)
    if cause_iter is not None:
        for k in kids:
            for e in v.evs('sched', k):
                if e[IT] > cause_iter:
                    viols.append((tag + ':scheduled-after',
                                  "a task is created for %s at loop iteration "
                                  "%d t=%s although %s at iteration %d t=%s"
                                  % (k, e[IT], e[T], what, cause_iter, t0)))
    # nothing deeper inside s may enter its body after the abort either,
    # unless in that same instant and cancelled (or finished) in it
    for d in v.descendants(s):
        if d in kids:
            continue
        # a job deeper inside s that is executing at the abort is cancelled
        # (or finishes by itself) at that instant too
        if v.inside(d, seq0 + 1) and not v.is_sched(d) \
                and not [e for e in v.all(CANCELS, d) if e[SEQ] <= seq0]:
            # (a job whose cancellation was already requested, e.g. by its
            # own scheduler's timeout, is on its way out)
            x = [e for e in v.all(CANCELS + tuple(mc.FIN), d)
                 if e[SEQ] > seq0]
            if not x or x[0][T] != t0:
                viols.append((tag + ':not-cancelled:nested',
                              "%s (nested inside %s) is executing when %s at "
                              "t=%s (#%d) but %s"
                              % (d, s, what, t0, seq0,
                                 "is never cancelled" if not x else
                                 "only gets %s at t=%s" % (x[0][KIND],
                                                           x[0][T]))))
        for b in v.all(mc.BEGIN, d):
            if b[SEQ] <= seq0:
                continue
            x = [e for e in v.all(CANCELS + tuple(mc.FIN), d)
                 if e[SEQ] > b[SEQ]]
            if b[T] != t0 or not x or x[0][T] != t0:
                viols.append((tag + ':starts-after:nested',
                              "%s (nested inside %s) enters its body at t=%s "
                              "(#%d) although %s at t=%s%s"
                              % (d, s, b[T], b[SEQ], what, t0,
                                 '' if b[T] != t0 else
                                 ' and is not cancelled at that instant')))
    x = v.exit(s)
    ext = v.evs('run_cancel', s)
    if x is not None and not ext:
        if is_flat(v, s):
            want = t0 + cancelled_cd + sd_phase(v, s)
            if x[T] != want:
                viols.append((tag + ':end-time',
                              "run of %s ends at t=%s; %s at t=%s, cancellations"
                              " take %s and the shutdown phase %s, so it must "
                              "end at t=%s" % (s, x[T], what, t0, cancelled_cd,
                                               sd_phase(v, s), want)))
        else:
            bound = t0 + max([cancel_bound(v, k) for k in kids], default=0) \
                + sd_bound(v, s)
            if x[T] > bound:
                viols.append((tag + ':end-time',
                              "run of %s ends at t=%s, later than %s (t=%s) + "
                              "cancellations + bounded shutdown = t=%s"
                              % (s, x[T], what, t0, bound)))
    # earlier finishers keep their results
    post = v.ex.post['jobs']
    for k in kids:
        f = v.fin(k)
        if f is not None and f[SEQ] < seq0 and k in post:
            p = post[k]
            if 'error' in p or p['done'] is not True or (
                    f[KIND] in ('end', 'run_end') and p['result'] is not f[DATA]
            ) or (f[KIND] in ('raise', 'run_raise')
                  and p['exc'] is not f[DATA]):
                viols.append((tag + ':result-lost',
                              "%s finished (#%d) before %s but afterwards "
                              "reports %r" % (k, f[SEQ], what, p)))
    return viols


# ---------------------------------------------------------------------- C04
def c04(v):
    viols = []
    trig = False
    diag = v.ex.post['scheds']
    for s in scheds_run(v):
        x = v.exit(s)
        if x is None or x[KIND] == 'run_cancel':
            continue
        kids = v.children[s]
        spec = v.spec[s]
        c, f, E = causes(v, s)
        regular = [k for k in kids if not v.spec[k].get('forever')]
        if kids and not regular:
            continue        # no non-forever job: the statement is silent
        # ---- what may have been decided
        times = {}
        if c is not None:
            times['critical'] = c[T]
        if f is not None:
            times['success'] = f[T]
        if not kids:
            times['success'] = v.begin(s)[T]
        if E is not None:
            times['timeout'] = E
        adm = set()
        if times:
            tmin = min(times.values())
            adm = {k for k, t in times.items() if t == tmin}
            if 'critical' in adm and 'success' in adm and f is not None \
                    and c[SEQ] <= f[SEQ]:
                adm.discard('success')
            if len(adm) > 1 or 'success' not in adm:
                trig = True
        # ---- what was observed
        d = diag[s]
        # "the very exception object raised by one of its critical jobs":
        # any of them, also one raised while answering the cancellation
        crit_excs = [e[DATA] for k in kids if v.spec[k].get('critical')
                     for e in v.all(('raise', 'run_raise', 'xraise'), k)
                     if e[SEQ] < x[SEQ]]
        obs = None
        may_raise = spec['k'] == 'nest' and spec.get('critical')
        if x[KIND] == 'run_end':
            if x[DATA] is True:
                obs = 'success'
            elif x[DATA] is False:
                if may_raise:
                    viols.append(('c04:critical-returned-false',
                                  "critical scheduler %s returns False instead "
                                  "of raising" % s))
                if bool(d['fto']) == bool(d['fcrit']):
                    viols.append((
                        'c04:diagnosis-%s' % ('none' if not d['fto']
                                              else 'both'),
                        "run of %s returned False but failed_time_out()=%r, "
                        "failed_critical()=%r, why()=%r: the diagnosis names "
                        "%s" % (s, d['fto'], d['fcrit'], d['why'],
                                'no cause' if not d['fto'] else 'two causes')))
                    continue
                obs = 'timeout' if d['fto'] else 'critical'
            else:
                viols.append(('c04:not-bool', "run of %s returned %r"
                              % (s, x[DATA])))
                continue
        else:
            exc = x[DATA]
            if not may_raise:
                viols.append(('c04:noncritical-raised',
                              "run of %s, not a critical Scheduler, raises %r"
                              % (s, exc)))
                continue
            if any(exc is e for e in crit_excs):
                obs = 'critical'
            elif type(exc) is TimeoutError:
                obs = 'timeout'
            else:
                viols.append(('c04:wrong-exception:%s' % type(exc).__name__,
                              "critical scheduler %s raises %r which is neither"
                              " TimeoutError nor the exception object of one of"
                              " its critical jobs %r" % (s, exc, crit_excs)))
                continue
        if obs not in adm:
            viols.append((
                'c04:verdict-%s-for-%s' % (obs, '+'.join(sorted(adm)) or 'none'),
                "run of %s ends with verdict %s but what happened admits only "
                "%s (critical raise %s, last completion %s, expiry %s)"
                % (s, obs, sorted(adm) or 'nothing',
                   'none' if c is None else 't=%s #%d' % (c[T], c[SEQ]),
                   'none' if f is None else 't=%s #%d' % (f[T], f[SEQ]),
                   'none' if E is None else 't=%s' % E)))
        # ---- the diagnosis must name exactly the observed cause
        want = {'success': (False, False), 'timeout': (True, False),
                'critical': (False, True)}[obs]
        if (bool(d['fto']), bool(d['fcrit'])) != want:
            viols.append(('c04:diagnosis-mismatch-' + obs,
                          "run of %s: verdict %s but failed_time_out()=%r "
                          "failed_critical()=%r" % (s, obs, d['fto'],
                                                    d['fcrit'])))
        why = str(d['why'])
        okwhy = {'success': why == 'FINE',
                 'timeout': why != 'FINE' and 'TIME' in why.upper(),
                 'critical': why != 'FINE' and 'CRITICAL' in why.upper()}[obs]
        if not okwhy:
            viols.append(('c04:why-mismatch-' + obs,
                          "run of %s: verdict %s but why() says %r"
                          % (s, obs, why)))
    return viols, trig


# ---------------------------------------------------------------------- C05
def c05(v):
    viols = []
    trig = False
    for s in scheds_run(v):
        c, f, E = causes(v, s)
        if c is None:
            continue
        if f is not None and f[SEQ] < c[SEQ]:
            continue            # the run was already over (forever job raised)
        me = main_end(v, s)
        if me is not None and me[SEQ] < c[SEQ]:
            continue            # already aborting for another reason
        if any(e[SEQ] < c[SEQ] for e in v.evs('run_cancel', s)):
            continue
        kids = v.children[s]
        if any(v.inside(k, c[SEQ]) or (v.evs('sched', k) and not v.begin(k))
               or (v.begin(k) is not None and v.begin(k)[SEQ] > c[SEQ])
               for k in kids if k != c[NAME]):
            trig = True
        viols += check_abort(v, s, c[SEQ], c[T], 'c05',
                             "critical job %s raises" % c[NAME], c[IT])
    return viols, trig


# ---------------------------------------------------------------------- C08
def c08(v):
    viols = []
    trig = False
    diag = v.ex.post['scheds']
    tmax = max((e[T] for e in v.log if e[SEQ] < v.ret_seq), default=0)
    for s in scheds_run(v):
        c, f, E = causes(v, s)
        x0 = v.exit(s)
        if x0 is not None and x0[KIND] != 'run_cancel' and (
                E is None or x0[T] < E) and diag[s]['fto']:
            viols.append(('c08:timeout-reported',
                          "run of %s ended at t=%s, %s, yet failed_time_out() "
                          "is %r and why() says %r"
                          % (s, x0[T], "it has no timeout" if E is None else
                             "strictly before its expiry at t=%s" % E,
                             diag[s]['fto'], diag[s]['why'])))
        if E is None:
            continue
        rb = v.begin(s)
        kids = v.children[s]
        me = main_end(v, s)
        ext = v.evs('run_cancel', s)
        if ext and (me is None or ext[0][SEQ] <= me[SEQ]):
            continue            # cancelled from outside before anything
        if me is not None and me[T] < E:
            continue            # over before the expiry: nothing to bound
        if not kids or all(v.spec[k].get('forever') for k in kids):
            continue        # no non-forever job: the statement is silent
        trig = True
        if me is None or me[T] > E:
            if tmax > E or v.ex.outcome[0] in ('deadlock', 'horizon'):
                viols.append((
                    'c08:overrun',
                    "scheduler %s began at t=%s with timeout %s; at t=%s its "
                    "run is not over, yet it does not react (%s)"
                    % (s, rb[T], v.spec[s]['timeout'], E,
                       "nothing happens" if me is None else
                       "first reaction at t=%s" % me[T])))
            continue
        # me[T] == E: the run left its main phase exactly at expiry
        early = (c is not None and c[T] < E) or (f is not None and f[T] < E)
        if early:
            continue
        # seq0 = just before the first reaction
        viols += check_abort(v, s, me[SEQ] - 1, E, 'c08',
                             "the timeout of %s expires" % s)
        tie = (c is not None and c[T] == E) or (f is not None and f[T] == E)
        x = v.exit(s)
        if not tie and x is not None and not ext:
            d = diag[s]
            crit = v.spec[s]['k'] == 'nest' and v.spec[s].get('critical')
            ok = (x[KIND] == 'run_raise' and type(x[DATA]) is TimeoutError) \
                if crit else (x[KIND] == 'run_end' and x[DATA] is False)
            if not ok or not d['fto'] or d['fcrit']:
                viols.append((
                    'c08:verdict',
                    "scheduler %s expired at t=%s with jobs unfinished but its"
                    " run ends with %s %r, failed_time_out()=%r "
                    "failed_critical()=%r" % (s, E, x[KIND], x[DATA], d['fto'],
                                              d['fcrit'])))
    return viols, trig


# ---------------------------------------------------------------------- C09
def c09(v):
    viols = []
    trig = False
    for s in scheds_run(v):
        c, f, E = causes(v, s)
        if f is None:
            continue
        if c is not None and c[SEQ] <= f[SEQ]:
            continue
        if E is not None and E < f[T]:
            continue
        me = main_end(v, s)
        if me is not None and me[SEQ] < f[SEQ]:
            continue
        if any(e[SEQ] < f[SEQ] for e in v.evs('run_cancel', s)):
            continue
        kids = v.children[s]
        fk = [k for k in kids if v.spec[k].get('forever')]
        if not fk:
            continue
        if any(v.inside(k, f[SEQ]) or not v.begin(k) for k in fk):
            trig = True
        viols += check_abort(v, s, f[SEQ], f[T], 'c09',
                             "the last non-forever job %s finishes" % f[NAME],
                             f[IT])
        x = v.exit(s)
        if x is not None:
            for k in fk:
                for d in [k] + v.descendants(k):
                    late = [b for b in v.all(mc.BEGIN, d) if b[SEQ] > x[SEQ]]
                    if v.inside(d, x[SEQ]) or late:
                        viols.append((
                            'c09:outlives',
                            "%s%s is still executing (or starts) after the run"
                            " of %s ended at #%d t=%s"
                            % (d, '' if d == k else ' (inside forever %s)' % k,
                               s, x[SEQ], x[T])))
        if v.exit(s) is None and v.ex.outcome[0] in ('deadlock', 'horizon'):
            viols.append(('c09:waits-forever',
                          "all non-forever jobs of %s are finished at t=%s but "
                          "its run never ends" % (s, f[T])))
    return viols, trig


def c09_full(v):
    """C09 proper, plus 'until then forever jobs start under the same
    requirement and window rules as any job': C01, C07 and C12 on the same
    execution"""
    viols, trig = c09(v)
    for m in (c01, c07, c12):
        vi, _ = m(v)
        viols += [('c09/' + k, msg) for k, msg in vi]
    return viols, trig


# ---------------------------------------------------------------------- C11
JOB_KINDS = ('start', 'end', 'raise', 'cancel', 'cancel2', 'cancel_done',
             'sd_begin', 'sd_end', 'sd_cancel', 'run_begin', 'run_end',
             'run_raise', 'run_cancel', 'ssd_begin', 'ssd_end', 'ssd_cancel')


def handler_pending(v, name, seq):
    """is a shutdown handler of `name` between begin and end at position seq"""
    kinds = (('ssd_begin', ('ssd_end', 'ssd_cancel')) if v.is_sched(name)
             else ('sd_begin', ('sd_end', 'sd_cancel')))
    nb = sum(1 for e in v.evs(kinds[0], name) if e[SEQ] < seq)
    ne = sum(1 for k in kinds[1] for e in v.evs(k, name) if e[SEQ] < seq)
    return nb > ne


def phase_of(v, s, seq):
    """phase of scheduler s's run at log position seq (for signatures)"""
    if not v.evs('run_begin', s) or v.begin(s)[SEQ] >= seq:
        return 'not-started'
    x = v.exit(s)
    if x is not None and x[SEQ] < seq:
        return 'over'
    if any(e[SEQ] < seq for e in v.evs('ssd_begin', s)):
        return 'shutdown'
    if any(e[SEQ] < seq for k in v.children[s]
           for e in v.all(('cancel', 'run_cancel', 'creq'), k)):
        return 'tidy'
    return 'main'


def c11(v):
    viols = []
    trig = False
    ex = v.ex
    if ex.outcome[0] not in ('return', 'raise'):
        return viols, trig
    for s in scheds_run(v):
        x = v.exit(s)
        if x is None:
            continue
        if x[KIND] == 'run_cancel':
            trig = True
        desc = v.descendants(s)
        for d in desc:
            if v.inside(d, x[SEQ]):
                viols.append((
                    'c11:still-running:%s' % x[KIND],
                    "run of %s ends (%s, #%d t=%s) while %s, inside it, is "
                    "still executing" % (s, x[KIND], x[SEQ], x[T], d)))
            if handler_pending(v, d, x[SEQ]):
                viols.append((
                    'c11:handler-pending:%s' % x[KIND],
                    "run of %s ends (%s, #%d t=%s) while the shutdown handler "
                    "of %s is still pending" % (s, x[KIND], x[SEQ], x[T], d)))
            for b in v.all(mc.BEGIN, d):
                if b[SEQ] > x[SEQ]:
                    viols.append((
                        'c11:starts-later:%s' % x[KIND],
                        "%s starts (#%d t=%s) after the run of its enclosing "
                        "scheduler %s ended (%s, #%d)"
                        % (d, b[SEQ], b[T], s, x[KIND], x[SEQ])))
    if ex.tasks_pending_at_return:
        viols.append(('c11:tasks-left',
                      "run() has returned but %d task(s) it created are not "
                      "finished: %s" % (len(ex.tasks_pending_at_return),
                                        ex.tasks_pending_at_return[:4])))
    late = [e for e in v.log[ex.drain_log_start:]
            if e[KIND] in JOB_KINDS and not (
                e[NAME] == v.top and e[KIND] in ('ssd_begin', 'ssd_end'))]
    if late:
        viols.append(('c11:activity-after-run',
                      "letting the loop run on after run() returned produces "
                      "%s" % [(e[T], e[KIND], e[NAME]) for e in late[:6]]))
    return viols, trig


# ---------------------------------------------------------------------- C13
def c13(v):
    viols = []
    trig = False
    ex = v.ex
    if ex.outcome[0] not in ('return', 'raise'):
        return viols, trig
    top = v.top
    if not v.children[top]:
        return viols, trig
    # exactly once, by the time the top-level run ends
    for name in v.spec:
        if name == top or v.is_sched(name):
            continue
        n = sum(1 for e in v.evs('sd_begin', name) if e[SEQ] < v.ret_seq)
        if n != 1:
            viols.append(('c13:count-%d' % min(n, 2),
                          "%s received co_shutdown() %d times by the time "
                          "run() ended" % (name, n)))
    for e in v.log[ex.drain_log_start:]:
        if e[KIND] in ('sd_begin',):
            viols.append(('c13:late-shutdown',
                          "%s receives co_shutdown() after run() has returned "
                          "(t=%s)" % (e[NAME], e[T])))
    for s in v.children:
        kids = v.children[s]
        began = bool(v.evs('run_begin', s))
        x = v.exit(s)
        if began and x is not None and x[KIND] != 'run_end'                 or not began:
            trig = True
        # the scheduler by whose end the jobs of s must have been told: s
        # itself when its run came to its own end; for a scheduler that never
        # started or was cancelled from outside, the nearest enclosing
        # scheduler whose run came to its own end
        anc = s
        while anc is not None:
            ax = v.exit(anc) if v.evs('run_begin', anc) else None
            if ax is not None and ax[KIND] != 'run_cancel':
                break
            anc = v.parent[anc]
        limit = v.exit(anc) if anc is not None else None
        for k in kids:
            if v.is_sched(k):
                continue
            for e in v.evs('sd_begin', k):
                if limit is not None and e[SEQ] > limit[SEQ]                         and e[SEQ] < v.ret_seq:
                    viols.append((
                        'c13:after-end',
                        "%s receives co_shutdown() at #%d, after the run of %s"
                        " ended (#%d)" % (k, e[SEQ], anc, limit[SEQ])))
                busy = [j for j in kids if v.inside(j, e[SEQ])]
                if busy:
                    viols.append((
                        'c13:while-running:%s' % phase_of(v, s, e[SEQ]),
                        "%s receives co_shutdown() at #%d t=%s while %s of the "
                        "same scheduler %s %s still executing"
                        % (k, e[SEQ], e[T], busy, s,
                           'is' if len(busy) == 1 else 'are')))
        # bounded shutdown phase and truthful return value
        sb = v.evs('ssd_begin', s)
        if not sb or not kids:
            continue
        b = sb[0]
        # calls may overlap (a second, no-op call while the first one is in
        # progress): pair begins and ends like parentheses
        depth = 0
        ends = []
        for e in v.all(('ssd_begin', 'ssd_end', 'ssd_cancel'), s):
            if e[SEQ] <= b[SEQ]:
                continue
            if e[KIND] == 'ssd_begin':
                depth += 1
            elif depth:
                depth -= 1
            else:
                ends.append(e)
                break
        if not ends:
            if b[SEQ] < v.ret_seq:
                viols.append(('c13:broadcast-unfinished',
                              "the shutdown broadcast of %s (#%d) never "
                              "completes" % (s, b[SEQ])))
            continue
        e = ends[0]
        sdt = v.spec[s].get('sdt', 1)
        dur = e[T] - b[T]
        if e[KIND] == 'ssd_end':
            if sdt is not None and dur > sdt:
                viols.append(('c13:phase-too-long',
                              "shutdown phase of %s lasts %s, its "
                              "shutdown_timeout is %s" % (s, dur, sdt)))
            if is_flat(v, s) and dur != sd_phase(v, s):
                viols.append(('c13:phase-length',
                              "shutdown phase of %s lasts %s instead of "
                              "min(max handler duration, shutdown_timeout)=%s"
                              % (s, dur, sd_phase(v, s))))
            cancelled = [k for k in kids for c in v.all(
                ('sd_cancel', 'ssd_cancel'), k) if b[SEQ] < c[SEQ] < e[SEQ]]
            for k in kids:
                for c in v.all(('sd_cancel',), k):
                    if b[SEQ] < c[SEQ] < e[SEQ] and sdt is not None                             and c[T] != b[T] + sdt:
                        viols.append(('c13:cancel-time',
                                      "handler of %s cancelled at t=%s, the "
                                      "shutdown phase of %s began at t=%s with"
                                      " shutdown_timeout %s"
                                      % (k, c[T], s, b[T], sdt)))
            if sdt is None or any(
                    (v.spec[k].get('sd', 0) if not v.is_sched(k) else None)
                    == sdt for k in kids):
                tie = True
            else:
                tie = False
            if not tie and is_flat(v, s):
                if (e[DATA] is True) != (not cancelled):
                    viols.append(('c13:return-value',
                                  "co_shutdown() of %s returned %r although %s"
                                  % (s, e[DATA],
                                     "handlers of %s had to be cancelled"
                                     % cancelled if cancelled else
                                     "no handler had to be cancelled")))
            elif e[DATA] is True and cancelled and not tie:
                viols.append(('c13:return-value',
                              "co_shutdown() of %s returned True although "
                              "handlers of %s had to be cancelled"
                              % (s, cancelled)))
        # pending handlers at the end of the broadcast
        for k in kids:
            if handler_pending(v, k, e[SEQ]) and not v.is_sched(k):
                viols.append(('c13:handler-left:%s' % e[KIND],
                              "shutdown broadcast of %s is over (%s #%d) but "
                              "the handler of %s is still pending"
                              % (s, e[KIND], e[SEQ], k)))
    if ex.explicit_sd is not None and ex.explicit_sd[0] != 'return':
        viols.append(('c13:explicit-shutdown-failed',
                      "explicit co_shutdown() after the run: %r"
                      % (ex.explicit_sd,)))
    return viols, trig
