"""
Stateless DFS over schedules with prefix replay and a deviation bound.

explore(scn, bound) yields every execution of `scn` whose schedule deviates
from the default one with total cost <= bound (bound=None: all schedules).
Each alternative at each choice point beyond the replayed prefix spawns one
new prefix, so no schedule is produced twice.
"""

from . import scen


class Stats:
    def __init__(self):
        self.execs = 0
        self.points = 0          # choice points visited (states, with terminal)
        self.trans = 0
        self.max_tie = 0
        self.replay_checked = 0
        self.capped = 0
        self.pruned = 0

    def add(self, other):
        self.execs += other.execs
        self.points += other.points
        self.trans += other.trans
        self.max_tie = max(self.max_tie, other.max_tie)
        self.replay_checked += other.replay_checked
        self.capped += other.capped


def logsig(ex):
    """comparable form of an execution (for determinism checks)"""
    return ([(s, t, i, k, n) for (s, t, i, k, n, _) in ex.log],
            ex.outcome[0], ex.choices)


def explore(scn, bound=None, stats=None, max_execs=None, replay_every=64,
            **runkw):
    stack = [[]]
    n = 0
    while stack:
        prefix = stack.pop()
        ex = scen.run_one(scn, prefix, **runkw)
        n += 1
        if stats is not None:
            stats.execs += 1
            stats.points += len(ex.points) - len(prefix) + 1
            stats.trans += ex.ntrans
            if ex.max_tie > stats.max_tie:
                stats.max_tie = ex.max_tie
        if replay_every and (n % replay_every == 1):
            ex2 = scen.run_one(scn, ex.sigchoices(), **runkw)
            if logsig(ex2) != logsig(ex):
                raise scen.VL.ReplayDivergence(
                    "execution does not replay identically: %r %r"
                    % (scn, ex.choices))
            if stats is not None:
                stats.replay_checked += 1
        yield ex
        if max_execs is not None and n >= max_execs:
            if stats is not None and stack:
                stats.capped += 1
            return
        cum = 0
        pts = ex.points
        for i, (nopts, c, costs, _sig) in enumerate(pts):
            if i >= len(prefix):
                for alt in range(nopts):
                    if alt == c:
                        continue
                    if bound is None or cum + costs[alt] <= bound:
                        stack.append(ex.choices[:i] + [alt])
                    elif stats is not None:
                        stats.pruned += 1
            cum += costs[c]
