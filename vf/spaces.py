"""
Reusable scenario families.  A work item is plain data:

  {'shape': scenario, 'force': name of a forcer, 'fargs': {...},
   'job_open': {...}, 'nest_open': {...}, 'top_open': {...},
   'extra': [(name, attr, value) ...]   further open values,
   'k': max number of open values that deviate, 'bound': schedule bound,
   'adm': apply the admissibility filter (default True)}

expand(item) yields the scenarios of the item: every forced base x every
subset of <= k open values, admissible, without duplicates.
"""

import itertools

from . import gen


def atomic_names(scn):
    return [n['name'] for n, _ in gen.walk(scn['tree']) if not gen.is_sched(n)]


def sched_names(scn):
    return [n['name'] for n, _ in gen.walk(scn['tree']) if gen.is_sched(n)]


def nested_names(scn):
    return [n['name'] for n, p in gen.walk(scn['tree'])
            if gen.is_sched(n) and p is not None]


# ------------------------------------------------------------------ forcers
def f_none(shape, a):
    yield shape


def f_faults_windows(shape, a):
    """every subset of jobs raising x every window assignment"""
    jobs = atomic_names(shape)
    scheds = sched_names(shape)
    byname = gen.nodes_of(shape)
    mode = a.get('windows', 'all')
    wopts = []
    for s in scheds:
        n = len(byname[s]['nodes'])
        if mode == 'all':
            wopts.append([None] + list(range(1, n + 1)))
        elif mode == 'small':
            wopts.append([None, 1, 2][:1 + min(2, n)])
        elif mode == 'none':
            wopts.append([None])
        else:
            wopts.append(list(mode))
    for r in range(len(jobs) + 1):
        for faults in itertools.combinations(jobs, r):
            for ws in itertools.product(*wopts):
                mods = [(j, 'out', 'raise') for j in faults]
                mods += [(s, 'window', w) for s, w in zip(scheds, ws)
                         if w is not None]
                yield gen.apply_mods(shape, mods)


def f_windows(shape, a):
    """every window assignment from a['values'] on every scheduler; at least
    one scheduler windowed unless a['allow_none']"""
    scheds = sched_names(shape)
    values = a.get('values', [None, 1, 2])
    for ws in itertools.product(values, repeat=len(scheds)):
        if not a.get('allow_none') and all(w is None for w in ws):
            continue
        yield gen.apply_mods(shape, [(s, 'window', w)
                                     for s, w in zip(scheds, ws)])


def f_durs(shape, a):
    """every assignment of durations from a['values'] to the atomic jobs"""
    jobs = atomic_names(shape)
    for ds in itertools.product(a.get('values', [0, 1, 2]), repeat=len(jobs)):
        yield gen.apply_mods(shape, [(j, 'dur', d) for j, d in zip(jobs, ds)])


def f_outcomes(shape, a):
    """every assignment of an outcome (return / raise / raise while
    critical, ...) to the atomic jobs; a['values'] = list of mod lists"""
    jobs = atomic_names(shape)
    if a.get('where'):
        byname = gen.nodes_of(shape)
        jobs = [n['name'] for n in byname[a['where']]['nodes']
                if not gen.is_sched(n)]
    values = a.get('values', [[('out', 'ret')], [('out', 'raise')],
                              [('out', 'raise'), ('critical', True)]])
    for combo in itertools.product(values, repeat=len(jobs)):
        yield gen.apply_mods(shape, [(j, at, v) for j, mods in zip(jobs, combo)
                                     for at, v in mods])


def f_mods(shape, a):
    """explicit list of alternative mod lists"""
    names = gen.nodes_of(shape)
    for mods in a['alts']:
        yield gen.apply_mods(shape, [tuple(m) for m in mods
                                     if m[0] in names or m[0] == ''])


def f_each_job(shape, a):
    """one base per atomic job (optionally per pair), with a['mods'] applied
    to that job; a['where'] restricts to jobs of a given scheduler"""
    byname = gen.nodes_of(shape)
    jobs = atomic_names(shape)
    also = [tuple(m) for m in a.get('also', []) if m[0] in byname]
    for j in jobs:
        yield gen.apply_mods(shape, [(j, at, val) for at, val in a['mods']]
                             + also)
    if a.get('pairs'):
        for j1, j2 in itertools.combinations(jobs, 2):
            yield gen.apply_mods(
                shape, [(j, at, val) for j in (j1, j2)
                        for at, val in a['mods']] + also)


def f_each_node(shape, a):
    """one base per node below the top (atomic or nested), with a['mods']"""
    for node, parent in gen.walk(shape['tree']):
        if parent is None:
            continue
        if a.get('only') == 'sched' and not gen.is_sched(node):
            continue
        yield gen.apply_mods(shape, [(node['name'], at, val)
                                     for at, val in a['mods']]
                             + [tuple(m) for m in a.get('also', [])])


def f_product(shape, a):
    """cartesian product of several forcers: a['parts'] = [(name, args)...]"""
    parts = a['parts']

    def rec(s, i):
        if i == len(parts):
            yield s
            return
        name, args = parts[i]
        for s2 in FORCERS[name](s, args):
            yield from rec(s2, i + 1)
    yield from rec(shape, 0)


FORCERS = {'none': f_none, 'outcomes': f_outcomes, 'faults_windows': f_faults_windows,
           'windows': f_windows, 'durs': f_durs, 'mods': f_mods,
           'each_job': f_each_job, 'each_node': f_each_node,
           'product': f_product}


def pre_menu(scn):
    """one extra (later removed) requirement edge between two siblings, for
    the pre-run history dimension"""
    out = []
    for node, _ in gen.walk(scn['tree']):
        if not gen.is_sched(node):
            continue
        names = [k['name'] for k in node['nodes']]
        idx = {n: i for i, n in enumerate(names)}
        edges = [(idx[r], idx[k['name']]) for k in node['nodes']
                 for r in k['req']]
        for r in names:
            for j in names:
                if r == j or (idx[r], idx[j]) in edges:
                    continue
                if gen._acyclic(len(names), edges + [(idx[r], idx[j])]):
                    out.append(('', 'pre', [[r, j]]))
    return out


def dangle_menu(scn):
    """one requirement between jobs of different schedulers (to be removed
    by a sanitize() call before the run)"""
    owner = {}
    for node, parent in gen.walk(scn['tree']):
        if parent is not None:
            owner[node['name']] = parent['name']
    names = sorted(owner)
    out = []
    for r in names:
        for j in names:
            if r != j and owner[r] != owner[j]:
                out.append(('', 'dangle', [[r, j]]))
    return out[:12]


def late_menu(scn):
    """one existing requirement edge wired only after the pre-run queries"""
    out = []
    for node, _ in gen.walk(scn['tree']):
        if gen.is_sched(node):
            for k in node['nodes']:
                for r in k['req']:
                    out.append(('', 'late', [[r, k['name']]]))
    return out


def expand(item):
    seen = set()
    k = item.get('k', 0)
    for base in FORCERS[item.get('force', 'none')](item['shape'],
                                                  item.get('fargs', {})):
        menu = gen.open_menu(base, item.get('job_open', {}),
                             item.get('nest_open', {}),
                             item.get('top_open'))
        menu += [tuple(m) for m in item.get('extra', ())]
        if item.get('pre'):
            menu += pre_menu(base)
            menu += late_menu(base)
            menu += [('', 'peek', 'exits'), ('', 'peek', 'succ'),
                     ('', 'peek', 'list')]
            menu += [('', 'build', 'addrev'), ('', 'build', 'update'),
                     ('', 'build', 'lateattrs')]
            menu += dangle_menu(base)
        for scn, _ in gen.variants(base, menu, k):
            if item.get('adm', True) and not gen.admissible(scn):
                continue
            key = gen.short(scn)
            if key in seen:
                continue
            seen.add(key)
            yield scn


# ------------------------------------------------------------ shape helpers
def flat4_shapes(all_labelled):
    if all_labelled:
        return list(gen.flat_shapes(4))
    reps = set(gen.dags_unlabelled_reps(4))
    return [s for s, e in zip(gen.flat_shapes(4), gen.dags(4))
            if tuple(sorted(e)) in reps]


def shapes(names, thorough=False):
    """named shape families"""
    for nm in names:
        if nm == 'flat123':
            for n in (1, 2, 3):
                yield from gen.flat_shapes(n)
        elif nm == 'flat23':
            for n in (2, 3):
                yield from gen.flat_shapes(n)
        elif nm == 'flat3':
            yield from gen.flat_shapes(3)
        elif nm == 'flat2':
            yield from gen.flat_shapes(2)
        elif nm == 'flat4':
            yield from flat4_shapes(thorough)
        elif nm == 'flat4all':
            yield from flat4_shapes(True)
        elif nm == 'flat5s':
            yield from gen.sparse_shapes(5, 3 if thorough else 2)
        elif nm == 'flat6s':
            yield from gen.sparse_shapes(6, 1)
        elif nm == 'nest32':
            yield from gen.nest_shapes(3, 2)
        elif nm == 'nest22':
            yield from gen.nest_shapes(2, 2)
        elif nm == 'nest20':
            yield from gen.nest_shapes(2, 0)
        elif nm == 'nest30':
            yield from gen.nest_shapes(3, 0)
        elif nm == 'nest21':
            yield from gen.nest_shapes(2, 1)
        elif nm == 'nest23':
            yield from gen.nest_shapes(2, 3)
        elif nm == 'nest33':
            yield from gen.nest_shapes(3, 3)
        elif nm == 'deep3':
            yield from gen.deep3_shapes()
        else:
            raise ValueError(nm)


def mk(shape_names, thorough=False, **kw):
    for shape in shapes(shape_names, thorough):
        yield dict(kw, shape=shape)
