"""
Driver shared by all checks: parallel exploration, aggregation, replay
confirmation, known findings, evidence, exit status.

A property module (vf/props/cNN.py) provides
  ID, RULE, ASSUMPTIONS (list), ENGINE ('mc' | 'seq')
  items(tier, seed)      -> iterable of picklable work items
  run_item(item)         -> dict (see merge() below)
  replay(rep)            -> list of violation messages for one replay record
  describe(rep)          -> optional printable trace for --replay
"""

import os
import sys
import json
import time
import random
import hashlib
import importlib
import multiprocessing as mp

VERIF = os.path.dirname(os.path.dirname(os.path.abspath(__file__)))
NPROC = int(os.environ.get('VERIF_NPROC', '0')) or min(16, os.cpu_count() or 1)
MAX_REPORT = 8


def load(prop_id):
    return importlib.import_module('vf.props.' + prop_id.lower())


def digest(obj):
    return hashlib.sha1(json.dumps(obj, sort_keys=True, default=str)
                        .encode()).hexdigest()[:12]


def h64(obj):
    return hash(obj)


def _worker_init():
    # workers are long-lived; nothing is forked per execution
    sys.setrecursionlimit(10000)


def _run(args):
    prop_id, item = args
    mod = load(prop_id)
    try:
        return mod.run_item(item)
    except Exception as exc:
        import traceback
        return {'harness_error': '%s\n%s' % (exc, traceback.format_exc()),
                'item': repr(item)[:2000]}


COUNT_KEYS = ('execs', 'states', 'trans', 'scenarios', 'exhausted_scenarios',
              'replay_checked', 'nontrivial', 'outcomes', 'capped',
              'validated', 'groups')


def load_known(prop_id):
    path = os.path.join(VERIF, 'known_findings.json')
    if not os.path.exists(path):
        return []
    with open(path) as f:
        data = json.load(f)
    return [e for e in data.get('findings', [])
            if e.get('property') == prop_id and e.get('status') == 'open']


def main(argv=None):
    import argparse
    ap = argparse.ArgumentParser()
    ap.add_argument('prop')
    ap.add_argument('--tier', default=os.environ.get('VERIF_TIER') or 'quick')
    ap.add_argument('--replay')
    ap.add_argument('--json', action='store_true')
    ap.add_argument('--limit', type=int, default=0,
                    help='debug: only the first N work items')
    ap.add_argument('--no-evidence', action='store_true')
    args = ap.parse_args(argv)
    prop_id = args.prop.upper()
    mod = load(prop_id)
    if args.replay:
        return do_replay(mod, args.replay, args.json)
    seed = int(os.environ.get('VERIF_SEED', '0') or 0)
    tier = args.tier
    t0 = time.time()

    items = list(mod.items(tier, seed))
    # the seed only permutes the visiting order; the set explored is fixed
    random.Random(seed).shuffle(items)
    if args.limit:
        items = items[:args.limit]
    agg = {k: 0 for k in COUNT_KEYS}
    agg['max_tie'] = 0
    bounds = set()
    violations = []
    samples = []
    errors = []
    chunks = max(1, min(8, len(items) // (NPROC * 8) or 1))
    if NPROC == 1 or len(items) <= 1:
        it = map(_run, ((prop_id, i) for i in items))
        pool = None
    else:
        pool = mp.Pool(NPROC, initializer=_worker_init)
        it = pool.imap_unordered(_run, ((prop_id, i) for i in items), chunks)
    stopped_early = False
    try:
        for res in it:
            if 'harness_error' in res:
                errors.append(res)
                break
            for k in COUNT_KEYS:
                agg[k] += res.get(k, 0)
            agg['max_tie'] = max(agg['max_tie'], res.get('max_tie', 0))
            if 'bound' in res:
                bounds.add(res['bound'])
            for s in res.get('samples', ()):
                if len(samples) < 3:
                    samples.append(s)
            violations.extend(res.get('violations', ()))
            if len({v.get('key') for v in violations}) >= 40 \
                    or len(violations) > 400:
                stopped_early = True
                break
    finally:
        if pool is not None:
            pool.terminate()
            pool.join()
    if errors:
        print("HARNESS ERROR in %s:\n%s\nitem: %s"
              % (prop_id, errors[0]['harness_error'], errors[0]['item']))
        return 2

    # ---- triage: known findings vs new violations, confirm by replay
    known = load_known(prop_id)
    known_hit = {}
    fresh = {}
    for v in violations:
        match = None
        for e in known:
            if mod.matches_known(v, e) if hasattr(mod, 'matches_known') \
                    else v.get('key') == e.get('key'):
                match = e
                break
        if match is not None:
            known_hit.setdefault(match['id'], (match, v))
        else:
            fresh.setdefault(v.get('key') or digest(v['replay']), v)
    for fid, (e, v) in sorted(known_hit.items()):
        print("KNOWN-FINDING: property=%s %s" % (prop_id, e['what']))
    nviol = 0
    os.makedirs(os.path.join(VERIF, 'replays'), exist_ok=True)
    for key, v in sorted(fresh.items(), key=lambda kv: str(kv[0]))[:MAX_REPORT]:
        rep = dict(v['replay'], property=prop_id, message=v['msg'],
                   key=v.get('key'))
        path = os.path.join(VERIF, 'replays',
                            '%s-%s.json' % (prop_id, digest(rep)))
        with open(path, 'w') as f:
            json.dump(rep, f, indent=1, default=str)
        # confirm from the file, twice, each time in a fresh process (same
        # initial state, no explorer): identical observations or no report
        m1 = replay_in_fresh_process(prop_id, path)
        m2 = replay_in_fresh_process(prop_id, path)
        if not m1 or m1 != m2:
            print("HARNESS ERROR: violation does not reproduce identically "
                  "(%r vs %r) for %s" % (m1, m2, json.dumps(rep)[:1500]))
            return 2
        print("  %s: %s" % (prop_id, v['msg']))
        print("VIOLATION property=%s replay=%s" % (prop_id, path))
        nviol += 1
    if len(fresh) > MAX_REPORT:
        print("  (%d further distinct violation shapes not written out)"
              % (len(fresh) - MAX_REPORT))
    wall = time.time() - t0
    if not args.no_evidence and not args.limit:
        write_evidence(mod, prop_id, tier, seed, agg, bounds, samples, wall,
                       nviol, len(known_hit), stopped_early, len(items))
    print("%s %s: items=%d scenarios=%d executions=%d states=%d transitions=%d"
          " nontrivial=%d outcomes=%d max_tie=%d bound=%s known=%d "
          "violations=%d wall=%.1fs"
          % (prop_id, tier, len(items), agg['scenarios'], agg['execs'],
             agg['states'], agg['trans'], agg['nontrivial'], agg['outcomes'],
             agg['max_tie'], sorted(bounds, key=str), len(known_hit), nviol,
             wall))
    return 1 if nviol else 0


def write_evidence(mod, prop_id, tier, seed, agg, bounds, samples, wall,
                   nviol, nknown, stopped_early, nitems):
    cov = {
        'states': agg['states'],
        'transitions': agg['trans'],
        'traces_validated_against_impl': agg['validated'] or agg['execs'],
        'evaluations': agg['execs'],
        'distinct_nontrivial': agg['nontrivial'],
        'distinct_outcomes': agg['outcomes'],
        'rule': mod.RULE,
        'samples': samples or ['(none)'],
        'scenarios': agg['scenarios'],
        'work_items': nitems,
        'replay_identical': agg['replay_checked'],
        'exhaustive': (not stopped_early) and agg['capped'] == 0,
        'exhaustive_scope': "the generated scenario / input space of this "
                            "tier, and for engine A every schedule within the "
                            "reported deviation bounds (all schedules for the "
                            "scenarios counted in exhausted_scenarios and for "
                            "twin relations); not the unbounded space",
        'caps_hit': agg['capped'],
        'known_findings_matched': nknown,
    }
    if getattr(mod, 'ENGINE', 'mc') == 'mc':
        cov['max_tie'] = agg['max_tie']
        cov['deviation_bounds'] = sorted(
            ('unbounded' if b is None else b for b in bounds), key=str)
        cov['exhausted_scenarios'] = agg['exhausted_scenarios']
    if agg['groups']:
        cov['relational_groups'] = agg['groups']
    ev = {
        'property_id': prop_id, 'tier': tier, 'seed': seed,
        'level': 'model_checking', 'coverage': cov,
        'assumptions': list(mod.ASSUMPTIONS), 'wall_s': round(wall, 2),
        'violations': nviol,
    }
    os.makedirs(os.path.join(VERIF, 'evidence'), exist_ok=True)
    path = os.path.join(VERIF, 'evidence', '%s.json' % prop_id)
    with open(path, 'w') as f:
        json.dump(ev, f, indent=1, default=str)


def replay_in_fresh_process(prop_id, path):
    import subprocess
    out = subprocess.run([sys.executable, '-m', 'vf.framework', prop_id,
                          '--replay', path, '--json'], capture_output=True,
                         text=True, cwd=VERIF)
    for line in out.stdout.splitlines():
        if line.startswith('REPLAY-JSON '):
            return json.loads(line[len('REPLAY-JSON '):])
    return None


def do_replay(mod, path, as_json=False):
    with open(path) as f:
        rep = json.load(f)
    if as_json:
        print('REPLAY-JSON ' + json.dumps(mod.replay(rep), default=str))
        return 0
    if hasattr(mod, 'describe'):
        print(mod.describe(rep))
    msgs = mod.replay(rep)
    if msgs:
        for m in msgs:
            print("  %s: %s" % (mod.ID, m))
        print("VIOLATION property=%s replay=%s" % (mod.ID, path))
        return 1
    print("replay: property %s holds on this trace" % mod.ID)
    return 0


if __name__ == '__main__':
    sys.exit(main())
