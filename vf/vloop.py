"""
Controlled event loop for stateless model checking of asyncio code.

VLoop is a BaseEventLoop with no selector and a virtual clock.  It is never
run with run_forever(): a *driver* pops `_ready` and `_scheduled` by hand, and
every place where the real world could answer in more than one way (which of
the timers due at this instant is delivered next; whether the loop gets to run
an iteration before the next delivery) is a *choice point* handed to a chooser.

Actions
  fire(h)   deliver one due timer (moves its handle to `_ready`)
  step      run one loop iteration = exactly the handles in `_ready` now
  advance   (not a choice) `_ready` empty and nothing due: clock := next timer

Deviation costs (see DESIGN.md §3.4): two "threads" alternate, the environment
(fires due timers, canonical order = creation index) and the loop (steps).
The default schedule lets the running thread continue while it is enabled;
switching away from an enabled thread costs 1, firing a non-first due timer
costs 1 more.
"""

import asyncio
import heapq
from asyncio import events


class Deadlock(Exception):
    """nothing ready, no timer armed, awaited task not done"""


class Horizon(Exception):
    """iteration horizon reached"""


class ReplayDivergence(Exception):
    """a recorded choice prefix does not fit the run: harness error"""


class VTimer(asyncio.TimerHandle):
    __slots__ = ('idx',)


class VTask(asyncio.Task):
    """stock Task with a deterministic hash, recorded by the loop"""

    def __init__(self, coro, *, loop, **kw):
        idx = len(loop.all_tasks_created)
        self._vidx = idx
        self._vhash = loop.task_hash(idx)
        super().__init__(coro, loop=loop, **kw)
        loop.all_tasks_created.append(self)

    def __hash__(self):
        return self._vhash


def _task_factory(loop, coro, **kw):
    return VTask(coro, loop=loop, **kw)


def _norm(x):
    if isinstance(x, (list, tuple)):
        return [_norm(y) for y in x]
    return x


class Chooser:
    """replays a prefix of choices, then takes the cost-0 option"""

    def __init__(self, prefix=()):
        self.prefix = list(prefix)
        # per point: (nopts, chosen, costs, signature)
        self.points = []
        self.frozen = False

    def choose(self, nopts, costs, sig):
        i = len(self.points)
        if not self.frozen and i < len(self.prefix):
            c = self.prefix[i]
            if isinstance(c, (list, tuple)):
                # replay file form: [choice, signature]
                c, want = c
                if _norm(want) != _norm(sig):
                    raise ReplayDivergence(
                        "choice point %d: signature %r != recorded %r"
                        % (i, sig, want))
            if not 0 <= c < nopts:
                raise ReplayDivergence(
                    "choice point %d: choice %d out of %d options"
                    % (i, c, nopts))
        else:
            c = costs.index(0)
        if not self.frozen:
            self.points.append((nopts, c, costs, sig))
        return c

    @property
    def choices(self):
        return [p[1] for p in self.points]


class VLoop(asyncio.BaseEventLoop):

    def __init__(self, chooser=None, task_hash_mode='asc', max_iter=4000):
        super().__init__()
        self.vtime = 0
        self.iter = 0
        self.max_iter = max_iter
        self.ntransitions = 0
        self._timer_idx = 0
        self.all_tasks_created = []
        self.chooser = chooser or Chooser()
        self.task_hash_mode = task_hash_mode
        self.set_task_factory(_task_factory)
        self.diag = []
        self.set_exception_handler(self._on_exc)
        self.on_iter = None          # callback after each loop iteration
        self._last = 'env'           # which "thread" ran last: 'env' | 'loop'
        self.max_tie = 0

    # -- ownership of the clock, the timers, the task hashes
    def time(self):
        return self.vtime

    def task_hash(self, idx):
        mode = self.task_hash_mode
        if mode == 'asc':
            return idx
        if mode == 'desc':
            return 100000 - idx
        # seeded scramble: a fixed odd multiplier permutation
        return (idx * 2654435761 + int(mode) * 40503) % 1000003

    def call_at(self, when, callback, *args, context=None):
        self._check_closed()
        timer = VTimer(when, callback, args, self, context)
        timer.idx = self._timer_idx
        self._timer_idx += 1
        heapq.heappush(self._scheduled, timer)
        timer._scheduled = True
        return timer

    def _on_exc(self, loop, context):
        self.diag.append(str(context.get('message')))

    # selector-free stubs
    def _process_events(self, event_list):
        pass

    def _write_to_self(self):
        pass

    # -- the transition system
    def due(self):
        return sorted((h for h in self._scheduled
                       if not h._cancelled and h._when <= self.vtime),
                      key=lambda h: h.idx)

    def live_timers(self):
        return [h for h in self._scheduled if not h._cancelled]

    def fire(self, handle):
        self._scheduled.remove(handle)
        heapq.heapify(self._scheduled)
        handle._scheduled = False
        self._ready.append(handle)
        self.ntransitions += 1

    def step(self):
        self.iter += 1
        if self.iter > self.max_iter:
            raise Horizon()
        ntodo = len(self._ready)
        for _ in range(ntodo):
            handle = self._ready.popleft()
            if handle._cancelled:
                continue
            handle._run()
        handle = None
        self.ntransitions += 1
        if self.on_iter is not None:
            self.on_iter()

    def advance(self):
        live = self.live_timers()
        when = min(h._when for h in live)
        # drop cancelled handles so that the heap stays small
        self._scheduled = live
        heapq.heapify(self._scheduled)
        if when > self.vtime:
            self.vtime = when
        self.ntransitions += 1
        self._last = 'env'

    def one_action(self):
        """perform one fire/step/advance; returns False when quiescent with
        no timer at all"""
        due = self.due()
        ready = bool(self._ready)
        if not due and not ready:
            if not self.live_timers():
                return False
            self.advance()
            return True
        if len(due) > self.max_tie:
            self.max_tie = len(due)
        # options: fire(due[i]) for each i, then step
        nopts = len(due) + (1 if ready else 0)
        if nopts == 1:
            c = 0
        else:
            if self._last == 'env' or not ready:
                # environment is (or must be) running: fire due[0] is free
                costs = [0 if i == 0 else 1 for i in range(len(due))]
                if ready:
                    costs.append(1 if due else 0)
                if not due:
                    costs = [0]
            else:
                # loop is running and still has work: step is free
                costs = [1 if i == 0 else 2 for i in range(len(due))]
                costs.append(0)
            sig = (self.vtime, tuple(h.idx for h in due), len(self._ready))
            c = self.chooser.choose(nopts, costs, sig)
        if c < len(due):
            self.fire(due[c])
            self._last = 'env'
        else:
            self.step()
            self._last = 'loop'
        return True

    def drive(self, until=None):
        """run actions until `until` (a future) is done, or, when until is
        None, until nothing at all is left to do"""
        events._set_running_loop(self)
        try:
            while until is None or not until.done():
                if not self.one_action():
                    if until is None:
                        return
                    raise Deadlock()
        finally:
            events._set_running_loop(None)

    def run_until_complete(self, coro_or_future):
        if asyncio.isfuture(coro_or_future):
            fut = coro_or_future
        else:
            fut = self.create_task(coro_or_future)
        self.drive(fut)
        return fut.result()

    def teardown(self):
        """cancel and step out whatever is left; never a choice point"""
        self.chooser.frozen = True
        self.on_iter = None
        self.max_iter = self.iter + 500
        try:
            for _ in range(3):
                left = [t for t in self.all_tasks_created if not t.done()]
                if not left:
                    break
                for t in left:
                    t.cancel()
                self.drive(None)
        except Horizon:
            pass
        self._ready.clear()
        self._scheduled.clear()
        self.close()
