"""
Relational (metamorphic) checking: compare the SETS of behaviours of twin
scenarios over all their tie schedules (DESIGN.md §5 C06, C10(c), C12).

Set comparison is only sound when both schedule spaces were enumerated
completely, so twins are explored with no deviation bound and a cap on the
number of executions; a capped pair is not compared (and is counted).
"""

from . import explore as X, mc, gen, scen

SEQ, T, IT, KIND, NAME, DATA = range(6)


def raw_behaviour(v, with_sched=True, atomic_only=False):
    """per node: (name, begin time, exit kind, exit time, value class)"""
    rows = []
    for name in sorted(v.spec):
        if atomic_only and v.is_sched(name):
            continue
        b = v.begin(name)
        x = v.exit(name)
        val = None
        if x is not None:
            if x[KIND] == 'run_end':
                val = x[DATA] if isinstance(x[DATA], bool) else repr(x[DATA])
            elif x[KIND] == 'run_raise':
                val = repr(x[DATA])
        rows.append((name, None if b is None else b[T],
                     None if x is None else x[KIND],
                     None if x is None else x[T], val))
    rows.append(('<run>', v.ex.outcome[0],
                 v.ex.outcome[1] if isinstance(v.ex.outcome[1], bool)
                 else repr(v.ex.outcome[1])))
    return tuple(rows)


def behaviours(scn, cap, stats, project=raw_behaviour, monitor=None):
    """-> (dict behaviour -> witness choices, capped?, monitor violations)"""
    st = X.Stats()
    out = {}
    viols = []
    for ex in X.explore(scn, None, st, max_execs=cap, drain=False):
        v = mc.View(ex)
        b = project(v)
        if b not in out:
            out[b] = ex.sigchoices()
        if monitor is not None and len(viols) < 3:
            for key, msg in monitor(v):
                viols.append((key, msg, ex))
    stats.add(st)
    return out, st.capped > 0, viols


def mask(beh, names):
    """hide the outcome of `names` (keep their times)"""
    rows = []
    for row in beh:
        if row[0] in names:
            kind = 'fin' if row[2] in ('end', 'raise') else row[2]
            rows.append((row[0], row[1], kind, row[3], None))
        else:
            rows.append(row)
    return tuple(rows)


def diff_text(a, b):
    """rows that differ between two behaviours"""
    da = dict((r[0], r) for r in a)
    db = dict((r[0], r) for r in b)
    return [(da.get(k), db.get(k)) for k in sorted(set(da) | set(db))
            if da.get(k) != db.get(k)]


def closest(beh, others):
    best = None
    for o in others:
        d = diff_text(beh, o)
        if best is None or len(d) < len(best):
            best = d
    return best
