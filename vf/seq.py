"""
Engine B: exhaustive enumeration / explicit-state search over the sequential
API (graph queries, surgery, construction, export), every step executed on
the real objects and compared with a boring reference model (ints, sets).
"""

import io
import os
import sys
import itertools
import contextlib

REPO = os.environ.get('VERIF_REPO', '/repo')
if REPO not in sys.path:
    sys.path.insert(0, REPO)
sys.dont_write_bytecode = True

import asynciojobs                                      # noqa: E402
from asynciojobs import (AbstractJob, Scheduler,        # noqa: E402
                         PureScheduler, Sequence)

assert os.path.realpath(asynciojobs.__file__).startswith(
    os.path.realpath(REPO) + os.sep), \
    "asynciojobs imported from %s, not from %s" % (asynciojobs.__file__, REPO)


class SJob(AbstractJob):
    def __init__(self, name, h, **kw):
        self.vname = name
        self.vhash = h
        kw.setdefault('critical', False)
        AbstractJob.__init__(self, label=name, **kw)

    def __hash__(self):
        return self.vhash

    def __repr__(self):
        return "<%s>" % self.vname


class SSched(Scheduler):
    def __init__(self, name, h, *jobs, **kw):
        self.vname = name
        self.vhash = h
        kw.setdefault('critical', False)
        Scheduler.__init__(self, *jobs, label=name, **kw)

    def __hash__(self):
        return self.vhash

    def __repr__(self):
        return "<%s>" % self.vname


class SPure(PureScheduler):
    def __init__(self, name, h, *jobs, **kw):
        self.vname = name
        self.vhash = h
        PureScheduler.__init__(self, *jobs, **kw)

    def __hash__(self):
        return self.vhash

    def __repr__(self):
        return "<%s>" % self.vname


class Hang(BaseException):
    """a library call did not come back within the watchdog delay"""


@contextlib.contextmanager
def watchdog(seconds=3.0):
    """the sequential API calls checked here take microseconds; one that is
    still running after `seconds` is reported as non-terminating (workers are
    single-threaded processes, so a real-time signal is safe)"""
    import signal

    def on_alarm(signum, frame):
        raise Hang("no answer within %ss" % seconds)
    old = signal.signal(signal.SIGALRM, on_alarm)
    signal.setitimer(signal.ITIMER_REAL, seconds)
    try:
        yield
    finally:
        signal.setitimer(signal.ITIMER_REAL, 0)
        signal.signal(signal.SIGALRM, old)


def guarded(fn, *args, **kw):
    """-> (value, None) or (None, message) when the call hangs"""
    try:
        with watchdog():
            return fn(*args, **kw), None
    except Hang as exc:
        return None, "a library call does not terminate (%s)" % exc


@contextlib.contextmanager
def captured():
    buf = io.StringIO()
    old = sys.stdout
    sys.stdout = buf
    try:
        yield buf
    finally:
        sys.stdout = old


# ---------------------------------------------------------- reference model
def digraphs(n, loops=False):
    pairs = [(i, j) for i in range(n) for j in range(n) if loops or i != j]
    for mask in range(1 << len(pairs)):
        yield tuple(p for b, p in enumerate(pairs) if mask >> b & 1)


def acyclic(nodes, edges):
    """edges (i, j): j requires i"""
    req = {j: set() for j in nodes}
    for i, j in edges:
        if j in req:
            req[j].add(i)
    done = set()
    nodes = set(nodes)
    while len(done) < len(nodes):
        new = [j for j in nodes if j not in done and (req[j] & nodes) <= done]
        if not new:
            return False
        done.update(new)
    return True


def closure(nodes, edges):
    """transitive closure restricted to nodes: set of (i, j), i before j"""
    nodes = set(nodes)
    reach = {(i, j) for i, j in edges if i in nodes and j in nodes}
    changed = True
    while changed:
        changed = False
        for (a, b) in list(reach):
            for (c, d) in list(reach):
                if b == c and (a, d) not in reach:
                    reach.add((a, d))
                    changed = True
    return reach


def ups(node, edges, members):
    return {i for i, j in edges if j == node and i in members}


def downs(node, edges, members):
    return {j for i, j in edges if i == node and j in members}


def reach_up(starts, edges, members):
    out, todo = set(), list(starts)
    while todo:
        n = todo.pop()
        for u in ups(n, edges, members):
            if u not in out:
                out.add(u)
                todo.append(u)
    return out


def reach_down(starts, edges, members):
    out, todo = set(), list(starts)
    while todo:
        n = todo.pop()
        for d in downs(n, edges, members):
            if d not in out:
                out.add(d)
                todo.append(d)
    return out


def edges_of(jobs):
    """real required sets -> edge set over names"""
    return {(r.vname, j.vname) for j in jobs for r in j.required}


def subsets(items, minsize=0, maxsize=None):
    items = list(items)
    maxsize = len(items) if maxsize is None else maxsize
    for r in range(minsize, maxsize + 1):
        yield from itertools.combinations(items, r)


def new_result():
    return {'execs': 0, 'states': 0, 'trans': 0, 'scenarios': 0,
            'nontrivial': 0, 'outcomes': 0, 'capped': 0, 'validated': 0,
            'violations': [], 'samples': []}


def add_violation(res, key, msg, replay, cap=6):
    if key.endswith('hang') or 'does not terminate' in msg:
        # every further case would cost a watchdog delay: give the item up
        res['abort'] = True
    if len(res['violations']) < cap:
        res['violations'].append({'key': key, 'msg': msg,
                                  'replay': dict(replay, engine='seq')})


SEQ_ASSUMPTIONS = [
    "reference model: plain Python sets/dicts over job names (vf/seq.py), "
    "trusted; every operation is executed on the real asynciojobs objects and "
    "the complete observable state is compared",
    "jobs carry small distinct __hash__ values so that set iteration order is"
    " a function of the (exhaustively enumerated) labelling",
    "sizes as reported; nothing is claimed beyond them (no random sampling)",
]
