"""C05 -- critical failure aborts at once: nothing new starts, running jobs
are cancelled"""
from . import _base
from .. import monitors, spaces

ID = 'C05'
RULE = _base.SPACE_TEXT + (
    "forced: one (or two) critical raising job(s) per scenario, at top level "
    "or nested, or a critical nested scheduler failing by its own timeout. "
    "oracle, with c the first critical raise of a scheduler S: a "
    "body of S entered after #c is entered at t(c) and cancelled at t(c); "
    "every direct job executing at #c gets cancel (or finishes by itself) at "
    "t(c), and so does every deeper job executing at #c whose cancellation "
    "was not already requested; run of S ends at t(c) + max cancel_delay + min(max sd, "
    "shutdown_timeout) exactly (flat S) / at most the recursive bound "
    "(nested); earlier finishers keep result()/raised_exception(). "
    "non-trivial = at #c a sibling was executing, queued or about to start")
globals().update(_base.std(monitors.c05))

JOB = {'dur': [0, 2, 3, 'never'], 'cdelay': [1], 'sd': [1, 3],
       'forever': [True], 'out': ['raise'], 'k': ['coro']}
TOP = {'window': [1, 2], 'sdt': [0, 2, None], 'k': ['nest'], 'timeout': [3]}


def items(tier, seed):
    th = tier == 'thorough'
    crit = {'mods': [('out', 'raise'), ('critical', True)], 'pairs': True}
    yield from spaces.mk(['flat123'], force='each_job', fargs=crit,
                         job_open=JOB, top_open=TOP, nest_open={},
                         extra=_base.X_THASH, k=3 if th else 2,
                         bound=3 if th else 2)
    yield from spaces.mk(['flat23', 'nest22'], force='each_job',
                         fargs={'mods': [('out', 'raise_empty'),
                                         ('critical', True)],
                                'also': [('top', 'verbose', True),
                                         ('n', 'verbose', True)]},
                         job_open={'dur': [0, 2], 'cdelay': [1]},
                         top_open={'window': [1]},
                         nest_open={'critical': [True]}, k=1, bound=2)
    yield from spaces.mk(['flat23', 'nest22'], force='each_job',
                         fargs={'mods': [('out', 'raise_base'),
                                         ('critical', True)]},
                         job_open={'dur': [0, 2], 'cdelay': [1]},
                         top_open={'window': [1]},
                         nest_open={'critical': [True]}, k=1, bound=2)
    # a critical nested scheduler failing through its own timeout, or
    # through one of its jobs, while it runs a chain of jobs
    yield from spaces.mk(
        ['nest22', 'nest32'], force='mods',
        fargs={'alts': [[('n', 'critical', True), ('n', 'timeout', 1),
                         ('x', 'dur', 3)],
                        [('n', 'critical', True), ('n', 'timeout', 1),
                         ('x', 'dur', 3), ('x', 'critical', True)],
                        [('n', 'critical', True), ('y', 'out', 'raise'),
                         ('y', 'critical', True), ('y', 'dur', 2)]]},
        job_open={'dur': [0, 2, 3], 'cdelay': [1]}, top_open={'window': [1]},
        nest_open={'sdt': [0]}, k=1, bound=2)
    yield from spaces.mk(['flat4'], th, force='each_job',
                         fargs={'mods': crit['mods']},
                         job_open={'dur': [0, 2], 'cdelay': [1]},
                         top_open={'window': [1, 2]}, nest_open={},
                         k=2 if th else 1, bound=2 if th else 1)
    yield from spaces.mk(['nest22', 'nest32'], force='each_job',
                         fargs={'mods': crit['mods']},
                         job_open={'dur': [0, 2], 'cdelay': [1], 'sd': [1, 3]},
                         top_open={'window': [1], 'sdt': [0, 2]},
                         nest_open={'critical': [True], 'window': [1],
                                    'sdt': [0, 2], 'forever': [True]},
                         k=2 if th else 1, bound=2)
    yield from spaces.mk(['deep3'], force='each_job',
                         fargs={'mods': crit['mods']},
                         job_open={'dur': [0, 2], 'cdelay': [1], 'sd': [1]},
                         top_open={'sdt': [0, 2]},
                         nest_open={'critical': [True], 'sdt': [0, 2]},
                         k=2 if th else 1, bound=2)
