"""C12 -- eager start: eligible jobs start immediately; a free window slot
is never wasted"""
from . import _base
from .. import monitors, spaces

ID = 'C12'
RULE = _base.SPACE_TEXT + (
    "oracle: unwindowed scheduler: every job starts at the virtual instant "
    "its last requirement finished (entry jobs: when the run began) and a job"
    " eligible strictly before the scheduler leaves its main phase does "
    "start; windowed scheduler: at the end of every instant of its main "
    "phase, fewer than jobs_window running implies no eligible job waiting. "
    "non-trivial = a job with >=2 requirements, or an eligible job waiting "
    "for a slot")
globals().update(_base.std(monitors.c12))


def items(tier, seed):
    th = tier == 'thorough'
    yield from _base.general(tier)
    yield from spaces.mk(
        ['flat23'], force='product',
        fargs={'parts': [('windows', {'values': [1, 2]}),
                         ('durs', {'values': [0, 1, 2]})]},
        job_open={'forever': [True], 'out': ['raise'], 'cdelay': [1]},
        top_open={'timeout': [2, 3], 'k': ['nest']}, extra=_base.X_THASH,
        pre=True, k=2 if th else 1, bound=3 if th else 2)
    yield from spaces.mk(
        ['flat4'], th, force='windows', fargs={'values': [1, 2, 3]},
        job_open={'dur': [0, 2], 'out': ['raise']}, top_open={},
        k=2 if th else 1, bound=2 if th else 1)
    yield from spaces.mk(
        ['flat5s'], th, force='windows', fargs={'values': [1, 2, 3]},
        job_open={'dur': [0, 2], 'out': ['raise']}, top_open={}, k=1,
        bound=3 if th else 2)
    yield from spaces.mk(
        ['flat23', 'nest22'], force='each_job',
        fargs={'mods': [('forever', True)]}, pre=True,
        job_open={'dur': [0, 2]}, top_open={'window': [1, 2]}, nest_open={},
        k=1, bound=2)
