"""C09 -- forever jobs are never waited for and never outlive the run"""
from . import _base
from .. import monitors, spaces

ID = 'C09'
RULE = _base.SPACE_TEXT + (
    "forced: 1-2 forever jobs (or a forever nested scheduler) per scenario: "
    "never-ending, ending before/at/after the last regular job, with "
    "successors, queued behind a window. oracle, with f the completion of the"
    " last non-forever job of S: every forever job executing at #f is "
    "cancelled (or ends) at t(f), none enters its body later, the run ends at"
    " t(f) + max cancel_delay + shutdown phase (exact flat / bounded nested)."
    " non-trivial = a forever job was executing or not yet started at #f")
globals().update(_base.std(monitors.c09_full))

JOB = {'dur': [0, 2, 3, 'never'], 'cdelay': [1], 'sd': [1, 3],
       'out': ['raise'], 'k': ['coro']}


def items(tier, seed):
    th = tier == 'thorough'
    fv = {'mods': [('forever', True)], 'pairs': True}
    yield from spaces.mk(['flat23'], force='each_job',
                         fargs={'mods': [('forever', True)]}, pre=True,
                         job_open={'dur': [0, 2]}, top_open={'window': [1]},
                         nest_open={}, k=1, bound=2)
    yield from spaces.mk(['flat23'], force='each_job', fargs=fv,
                         job_open=JOB,
                         top_open={'window': [1, 2], 'sdt': [0, 2, None],
                                   'k': ['nest'], 'timeout': [2, 3]},
                         nest_open={}, extra=_base.X_THASH,
                         k=3 if th else 2, bound=3 if th else 2)
    yield from spaces.mk(['flat4'], th, force='each_job',
                         fargs={'mods': [('forever', True)]},
                         job_open={'dur': [0, 2, 'never']},
                         top_open={'window': [2]}, nest_open={},
                         k=2 if th else 1, bound=2 if th else 1)
    yield from spaces.mk(['nest22', 'nest32'], force='each_node',
                         fargs={'mods': [('forever', True)]},
                         job_open={'dur': [0, 2, 3, 'never'], 'cdelay': [1],
                                   'sd': [1]},
                         top_open={'window': [2], 'sdt': [0, 2]},
                         nest_open={'window': [1], 'sdt': [0, 2],
                                    'timeout': [2]},
                         k=2 if th else 1, bound=2)
    yield from spaces.mk(['deep3'], force='each_node',
                         fargs={'mods': [('forever', True)]},
                         job_open={'dur': [0, 2, 'never'], 'cdelay': [1]},
                         top_open={}, nest_open={'sdt': [0, 2]},
                         k=2 if th else 1, bound=2)
