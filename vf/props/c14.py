"""C14 -- job results and life-cycle predicates tell the truth"""
from . import _base
from .. import monitors, spaces

ID = 'C14'
RULE = _base.SPACE_TEXT + (
    "oracle: at every loop iteration of every execution and after run(), "
    "is_idle/is_scheduled/is_running/is_done/result/raised_exception of every"
    " job and nested scheduler agree with the event log and the task-factory "
    "record at the same log position; predicates nest and never revert. "
    "non-trivial = a snapshot in which some job is scheduled but not running")
globals().update(_base.std(monitors.c14, snap=True))


def items(tier, seed):
    th = tier == 'thorough'
    yield from _base.general(tier)
    yield from spaces.mk(
        ['flat23'], force='windows', fargs={'values': [1, 2]},
        job_open={'dur': [0, 2, 'never'], 'forever': [True], 'out': ['raise'],
                  'critical': [True], 'k': ['coro'], 'cdelay': [1]},
        top_open={'timeout': [1, 2], 'k': ['nest']},
        k=2, bound=3 if th else 2)
    yield from spaces.mk(
        ['flat5s'], th, force='windows', fargs={'values': [1, 2, 3]},
        job_open={'dur': [0, 2], 'out': ['raise']}, top_open={}, k=1,
        bound=3 if th else 2)
