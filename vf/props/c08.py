"""C08 -- timeout bounds the run: at expiry everything is cancelled and the
run fails"""
from . import _base
from .. import monitors, spaces

ID = 'C08'
RULE = _base.SPACE_TEXT + (
    "forced: a timeout T in {0,1,2,3} on the top, the nested or the "
    "nested-in-nested scheduler, job ends before/on/after E = its own "
    "run_begin + T. oracle: a run not over at E reacts at E (not later, not "
    "never): nothing enters its body after, every executing direct job is "
    "cancelled at E, the run ends at E + max cancel_delay + shutdown phase "
    "(exact when flat, bounded when nested) with the timeout verdict "
    "(False/TimeoutError, failed_time_out) unless a completion ties with E; "
    "earlier finishers keep results. non-trivial = the run was still in its "
    "main phase at E")
globals().update(_base.std(monitors.c08))

JOB = {'dur': [0, 2, 3, 'never'], 'cdelay': [1], 'sd': [1, 3],
       'forever': [True], 'out': ['raise'], 'critical': [True]}


def timeouts(name):
    return {'alts': [[(name, 'timeout', t)] for t in (0, 1, 2, 3)]}


def items(tier, seed):
    th = tier == 'thorough'
    yield from spaces.mk(['flat123'], force='mods', fargs=timeouts('top'),
                         job_open=JOB,
                         top_open={'window': [1, 2], 'sdt': [0, 2, None],
                                   'k': ['nest'], 'critical': [True]},
                         nest_open={}, extra=_base.X_THASH,
                         k=3 if th else 2, bound=3 if th else 2)
    yield from spaces.mk(['flat4'], th, force='mods', fargs=timeouts('top'),
                         job_open={'dur': [2, 3]},
                         top_open={'window': [1, 2]}, nest_open={},
                         k=2 if th else 1, bound=2 if th else 1)
    # nested timeouts, measured from the nested run's own beginning
    for where in ('n', 'top'):
        yield from spaces.mk(['nest22', 'nest32'], force='mods',
                             fargs=timeouts(where),
                             job_open={'dur': [0, 2, 3, 'never'],
                                       'cdelay': [1]},
                             top_open={'window': [1], 'timeout': [2, 3]},
                             nest_open={'critical': [True], 'window': [1],
                                        'sdt': [0, 2], 'timeout': [1, 2]},
                             k=2 if th else 1, bound=2)
    for where in ('m', 'n'):
        yield from spaces.mk(['deep3'], force='mods', fargs=timeouts(where),
                             job_open={'dur': [0, 2, 3, 'never'],
                                       'cdelay': [1]},
                             top_open={}, nest_open={'critical': [True]},
                             k=2 if th else 1, bound=2)
