"""C08 -- timeout bounds the run: at expiry everything is cancelled and the
run fails"""
from . import _base
from .. import monitors, spaces

ID = 'C08'
RULE = _base.SPACE_TEXT + (
    "forced: a timeout T in {0,1,2,3} on the top, the nested or the "
    "nested-in-nested scheduler, job ends before/on/after E = its own "
    "run_begin + T. oracle: a run not over at E reacts at E (not later, not "
    "never): nothing enters its body after, every executing direct job is "
    "cancelled at E, the run ends at E + max cancel_delay + shutdown phase "
    "(exact when flat, bounded when nested) with the timeout verdict "
    "(False/TimeoutError, failed_time_out) unless a completion ties with E; "
    "earlier finishers keep results. non-trivial = the run was still in its "
    "main phase at E; plus the twin relation: when every non-forever job of "
    "the scheduler finishes strictly before E in all behaviours of the twin "
    "without the timeout, the two twins have the same set of timed "
    "behaviours over all tie schedules. nested schedulers also with a Watch "
    "attached (the watch reads the same virtual clock)")
globals().update(_base.std(monitors.c08))

JOB = {'dur': [0, 2, 3, 'never'], 'cdelay': [1], 'sd': [1, 3],
       'forever': [True], 'out': ['raise'], 'critical': [True],
       'k': ['coro', 'print']}


def timeouts(name):
    return {'alts': [[(name, 'timeout', t)] for t in (0, 1, 2, 3)]}


def items(tier, seed):
    th = tier == 'thorough'
    if th:
        yield from spaces.mk(['flat123'], force='mods', fargs=timeouts('top'),
                             job_open=JOB,
                             top_open={'window': [1, 2], 'sdt': [0, 2, None],
                                       'k': ['nest'], 'critical': [True]},
                             nest_open={}, extra=_base.X_THASH, k=2, bound=3)
    else:
        # job ends before / on / after the expiry through a forced duration
        # assignment, one further deviation
        yield from spaces.mk(
            ['flat123'], force='product',
            fargs={'parts': [('mods', timeouts('top')),
                             ('durs', {'values': [1, 3]})]},
            job_open=JOB,
            top_open={'window': [1, 2], 'sdt': [0, 2, None], 'k': ['nest'],
                      'critical': [True]},
            nest_open={}, extra=_base.X_THASH, k=1, bound=2)
        yield from spaces.mk(['flat2'], force='mods', fargs=timeouts('top'),
                             job_open=JOB,
                             top_open={'window': [1], 'sdt': [0, 2, None],
                                       'k': ['nest'], 'critical': [True]},
                             nest_open={}, k=2, bound=2)
    yield from spaces.mk(['flat4'], th, force='mods', fargs=timeouts('top'),
                         job_open={'dur': [2, 3]},
                         top_open={'window': [1, 2]}, nest_open={},
                         k=2 if th else 1, bound=2 if th else 1)
    # nested timeouts, measured from the nested run's own beginning
    for where in ('n', 'top'):
        yield from spaces.mk(['nest22', 'nest32'], force='mods',
                             fargs=timeouts(where),
                             job_open={'dur': [0, 2, 3, 'never'],
                                       'cdelay': [1]},
                             top_open={'window': [1], 'timeout': [2, 3]},
                             nest_open={'critical': [True], 'window': [1],
                                        'sdt': [0, 2], 'timeout': [1, 2],
                                        'watch': [True]},
                             k=2 if th else 1, bound=2)
    for where in ('m', 'n'):
        yield from spaces.mk(['deep3'], force='mods', fargs=timeouts(where),
                             job_open={'dur': [0, 2, 3, 'never'],
                                       'cdelay': [1]},
                             top_open={}, nest_open={'critical': [True]},
                             k=2 if th else 1, bound=2)


# ---------------------------------------------------------------- the twin
# "If all its non-forever jobs finish strictly before T the timeout has no
# effect": compare, as sets over ALL tie schedules, the timed behaviours of X
# (timeout T on scheduler S) and of X' (same, timeout removed), whenever in
# every behaviour of X' the last non-forever job of S finishes strictly
# before begin(S)+T.
from .. import rel, mc, gen, explore as X                   # noqa: E402

CAP = 1500
_std_run_item = run_item                                     # noqa: F821
_std_replay = replay                                         # noqa: F821
_std_describe = describe                                     # noqa: F821


def timed_scheds(scn):
    return [n['name'] for n, _ in gen.walk(scn['tree'])
            if gen.is_sched(n) and n.get('timeout') is not None]


def compare_twin(scn, stats):
    """-> None (not applicable / capped) or (violations, nbehaviours)"""
    ts = timed_scheds(scn)
    if len(ts) != 1:
        return None
    s = ts[0]
    node = gen.nodes_of(scn)[s]
    T = node['timeout']
    regular = [k['name'] for k in node['nodes'] if not k.get('forever')]
    if not regular:
        return None
    twin = gen.apply_mods(scn, [(s, 'timeout', None)])
    if not gen.admissible(twin):
        return None
    B2, cap2, _ = rel.behaviours(twin, CAP, stats)
    if cap2:
        return 'capped'
    for beh in B2:
        rows = {r[0]: r for r in beh}
        if rows[s][1] is None:
            return None                     # S never began in some behaviour
        E = rows[s][1] + T
        for k in regular:
            r = rows[k]
            if r[2] not in ('end', 'raise', 'run_end', 'run_raise') \
                    or r[3] >= E:
                return None                 # not "strictly before T"
    B1, cap1, _ = rel.behaviours(scn, CAP, stats)
    if cap1:
        return 'capped'
    if set(B1) == set(B2):
        return [], len(B1)
    only1 = [b for b in B1 if b not in B2]
    only2 = [b for b in B2 if b not in B1]
    if only1:
        side, beh, wit, other = 'with timeout', only1[0], B1[only1[0]], B2
    else:
        side, beh, wit, other = 'without timeout', only2[0], B2[only2[0]], B1
    return [{
        'key': 'c08:timeout-has-effect',
        'msg': "all non-forever jobs of %s finish strictly before its timeout "
               "%s, yet the timeout changes the run: a behaviour of the twin "
               "%s has no counterpart; closest difference %s | scenario %s"
               % (s, T, side, rel.closest(beh, other), gen.short(scn)),
        'replay': {'engine': 'mc-rel', 'scenario': scn,
                   'scenario_short': gen.short(scn), 'witness_side': side,
                   'witness_choices': wit}}], len(B1)


def run_item(item):
    if item.get('kind') != 'twin':
        return _std_run_item(item)
    res = mc.new_result(None)
    res['groups'] = 0
    stats = X.Stats()
    for scn in spaces.expand(item):
        r = compare_twin(scn, stats)
        if r is None:
            continue
        res['scenarios'] += 2
        if r == 'capped':
            res['capped'] += 1
            continue
        viols, n = r
        res['groups'] += 1
        res['nontrivial'] += 1
        res['outcomes'] += n
        if viols and len(res['violations']) < 4:
            res['violations'].extend(viols)
    res['execs'] = stats.execs
    res['states'] = stats.points
    res['trans'] = stats.trans
    res['replay_checked'] = stats.replay_checked
    res['max_tie'] = stats.max_tie
    res['exhausted_scenarios'] = res['scenarios'] - 2 * res['capped']
    return res


def replay(rep):
    if rep.get('engine') == 'mc':
        return _std_replay(rep)
    r = compare_twin(rep['scenario'], X.Stats())
    return sorted(v['msg'] for v in r[0]) if isinstance(r, tuple) else []


def describe(rep):
    if rep.get('engine') == 'mc':
        return _std_describe(rep)
    from .. import scen
    scn = rep['scenario']
    if rep['witness_side'] == 'without timeout':
        scn = gen.apply_mods(scn, [(s, 'timeout', None)
                                   for s in timed_scheds(scn)])
    ex = scen.run_one(scn, rep['witness_choices'], drain=False)
    return "scenario %s\nwitness execution (twin %s):\n%s" % (
        rep['scenario_short'], rep['witness_side'], mc.View(ex).pretty())


_items_single = items                                        # noqa: F821

STAG = [[('a', 'dur', 1), ('b', 'dur', 2), ('c', 'dur', 1), ('x', 'dur', 1),
         ('y', 'dur', 2)],
        [('a', 'dur', 2), ('b', 'dur', 1), ('c', 'dur', 1), ('x', 'dur', 2),
         ('y', 'dur', 1)],
        []]


def items(tier, seed):
    yield from _items_single(tier, seed)
    th = tier == 'thorough'
    for where, shapes_ in ((('top', ['flat23']), ('n', ['nest22', 'nest32']),
                            ('top', ['nest22'])) if th else
                           (('top', ['flat23']), ('n', ['nest22']))):
        yield from spaces.mk(
            shapes_, force='product',
            fargs={'parts': [('mods', {'alts': [[(where, 'timeout', t)]
                                                for t in (2, 3, 4)]}),
                             ('mods', {'alts': STAG})]},
            job_open={'dur': [0], 'out': ['raise'], 'forever': [True],
                      'critical': [True]},
            top_open={'window': [1, 2]}, nest_open={'window': [1]},
            k=(2 if where == 'top' else 1) if th else
            (1 if where == 'top' else 0), kind='twin')
