"""C02 -- success means every non-forever job ran exactly once; no job ever
runs twice"""
from . import _base
from .. import monitors, spaces

ID = 'C02'
RULE = _base.SPACE_TEXT + (
    "oracle: at most one body entry and one task per job; when a scheduler's "
    "run returns True every non-forever direct job has exactly one body entry"
    " and an end (or non-critical raise) event before the run's end. "
    "extra alphabet: a body that ends by raising CancelledError by itself "
    "(counts as the job's own end). non-trivial = a success verdict with a tie between completions, a "
    "forever job that ended before the run, or a windowed scheduler")
globals().update(_base.std(monitors.c02))


def items(tier, seed):
    th = tier == 'thorough'
    yield from _base.general(tier)
    # windows smaller than the number of eligible jobs, joins, forever jobs
    yield from spaces.mk(
        ['flat23'], force='product',
        fargs={'parts': [('windows', {'values': [1, 2]}),
                         ('durs', {'values': [0, 1, 2]})]},
        job_open={'forever': [True], 'out': ['raise'], 'dur': ['never']},
        top_open={'timeout': [2, 3]}, pre=True, k=2 if th else 1, bound=3 if th else 2)
    # a job whose body ends by raising CancelledError of its own accord:
    # its task is cancelled, not finished, so whatever requires it can never
    # be started -- the run may end as it likes, but not with success
    yield from spaces.mk(
        ['flat123', 'nest22', 'nest21'], force='each_job',
        fargs={'mods': [('out', 'selfcancel')]},
        job_open={'dur': [0, 2], 'forever': [True], 'critical': [True]},
        top_open={'window': [1], 'timeout': [3]},
        nest_open={'critical': [True]}, k=1, bound=2)
    yield from spaces.mk(
        ['flat5s'], th, force='windows', fargs={'values': [1, 2, 3]},
        job_open={'dur': [0, 2], 'out': ['raise']}, top_open={}, k=1,
        bound=3 if th else 2)
    yield from spaces.mk(
        ['flat5s'], th, force='product',
        fargs={'parts': [('windows', {'values': [1, 2]}),
                         ('mods', {'alts': [[('top', 'verbose', True)]]})]},
        job_open={'out': ['raise']}, top_open={}, k=1 if th else 0,
        bound=2)
