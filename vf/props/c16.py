"""C16 -- sanitize() closes the requirement relation minimally and reports
truthfully"""
import itertools

from .. import seq
from ..seq import SJob, SSched, SPure

ID = 'C16'
ENGINE = 'seq'
ASSUMPTIONS = seq.SEQ_ASSUMPTIONS
RULE = ("scheduler-tree skeletons of depth <=3 (top PureScheduler or "
        "Scheduler, nested schedulers, an outsider job of no scheduler) x "
        "EVERY set of <=3 (thorough 4) requirement edges among all ordered "
        "pairs of nodes (jobs, nested schedulers, outsider; to siblings', "
        "parents', children's jobs). oracle: after sanitize(), for every "
        "scheduler S of the tree and j in S, required(j) == required_before(j)"
        " & S; return value == nothing was removed anywhere; a second call "
        "returns True and changes nothing. non-trivial = at least one edge "
        "leaves its scheduler (something must be removed) or a nested "
        "scheduler is involved; distinct = distinct (skeleton, edge set)")

# skeleton: nested dict name -> children (None for atomic), plus outsider 'o'
SKELETONS = {
    'A': {'a': None, 'b': None, 'n': {'x': None, 'y': None}},
    'B': {'a': None, 'n': {'x': None, 'm': {'p': None}}, 'k': {'u': None}},
    'C': {'a': None, 'n': {'x': None, 'y': None}, 'k': {}},
    'D': {'a': None, 'b': None, 'c': None},
}


def build_ctor(skel, toppure, edges):
    """same tree, but every job is created with required=<set object>, jobs
    with equal requirement sets being given the very same object; only
    possible when the edges allow a creation order; returns None otherwise"""
    names = node_names(skel)
    req = {n: set() for n in names}
    for a, b in edges:
        req[b].add(a)
    kids_of = {}

    def walk(d, parent):
        for k, v in d.items():
            kids_of.setdefault(parent, []).append(k)
            if v is not None:
                kids_of.setdefault(k, [])
                walk(v, k)
    walk(SKELETONS[skel], 'top')
    # a node can be created once its requirements and (for a scheduler) its
    # children exist
    need = {n: set(req[n]) | set(kids_of.get(n, ())) for n in names}
    order, done = [], set()
    while len(order) < len(names):
        ready = [n for n in names if n not in done and need[n] <= done]
        if not ready:
            return None
        for n in ready:
            done.add(n)
            order.append(n)
    objs, member, shared = {}, {}, {}
    for h, n in enumerate(order, 1):
        key = frozenset(req[n])
        if key and key not in shared:
            shared[key] = {objs[r] for r in key}
        kw = {'required': shared[key]} if key else {}
        if n in kids_of:
            objs[n] = SSched(n, h, *[objs[k] for k in kids_of[n]], **kw)
            member[n] = set(kids_of[n])
        else:
            objs[n] = SJob(n, h, **kw)
    top = (SPure if toppure else SSched)(
        'top', 0, *[objs[k] for k in kids_of['top']])
    member['top'] = set(kids_of['top'])
    return top, objs, member


def build(skel, toppure, edges):
    objs = {}
    member = {}      # scheduler name -> set of member names
    counter = [1]

    def mk(name, kids):
        h = counter[0]
        counter[0] += 1
        if kids is None:
            objs[name] = SJob(name, h)
        else:
            sub = [mk(k, v) for k, v in kids.items()]
            objs[name] = SSched(name, h, *sub)
            member[name] = set(kids)
        return objs[name]
    sub = [mk(k, v) for k, v in SKELETONS[skel].items()]
    top = (SPure if toppure else SSched)('top', 0, *sub)
    member['top'] = set(SKELETONS[skel])
    objs['o'] = SJob('o', counter[0])
    for a, b in edges:
        objs[b].requires(objs[a])
    return top, objs, member


def node_names(skel):
    out = []

    def walk(d):
        for k, v in d.items():
            out.append(k)
            if v is not None:
                walk(v)
    walk(SKELETONS[skel])
    return out + ['o']


def reqs(objs):
    return {n: {r.vname for r in o.required} for n, o in objs.items()}


def _one(skel, toppure, edges, res, ctor=False, verbose=None):
    rep = {'skeleton': skel, 'toppure': toppure,
           'edges': [list(e) for e in edges], 'ctor': ctor,
           'verbose': verbose}
    if ctor:
        built = build_ctor(skel, toppure, edges)
        if built is None:
            return
        top, objs, member = built
    else:
        top, objs, member = build(skel, toppure, edges)
    before = reqs(objs)
    msgs = []
    if verbose == 'attr':
        top.verbose = True
    kw = {'verbose': True} if verbose == 'arg' else {}
    with seq.captured():
        try:
            r1 = top.sanitize(**kw)
        except Exception as exc:
            r1 = exc
    after = reqs(objs)
    expect = {n: set(v) for n, v in before.items()}
    removed = False
    for s, mem in member.items():
        for j in mem:
            keep = before[j] & mem
            if keep != before[j]:
                removed = True
            expect[j] = keep
    for n in sorted(objs):
        if after[n] != expect[n]:
            msgs.append("after sanitize() %s requires %s, expected %s (before:"
                        " %s)" % (n, sorted(after[n]), sorted(expect[n]),
                                  sorted(before[n])))
    if r1 is not (not removed):
        msgs.append("sanitize() returns %r although %s" % (
            r1, "requirements had to be removed" if removed else
            "nothing had to be removed anywhere in the tree"))
    with seq.captured():
        try:
            r2 = top.sanitize(**kw)
        except Exception as exc:
            r2 = exc
    if r2 is not True:
        msgs.append("second sanitize() returns %r" % (r2,))
    if reqs(objs) != after:
        msgs.append("second sanitize() changes requirements")
    res['execs'] += 1
    res['trans'] += 2
    res['states'] += 1
    res['validated'] += 2
    if removed or any(a in member or b in member for a, b in edges):
        res['nontrivial'] += 1
    for m in msgs[:2]:
        key = 'c16:' + ('return' if 'returns' in m else 'requirements') + (
            ':nested-clean' if ('returns' in m and not removed) else '')
        seq.add_violation(res, key, "%s | skeleton %s %s top=%s edges (a,b: b "
                          "requires a) %s" % (
                              m + (' [jobs created with shared required= set '
                                   'objects]' if ctor else '')
                              + (' [verbose: %s]' % verbose if verbose
                                 else ''),
                              skel, SKELETONS[skel],
                              'PureScheduler' if toppure else 'Scheduler',
                              sorted(edges)), rep)


def one(skel, toppure, edges, res, ctor=False, verbose=None):
    _, hang = seq.guarded(_one, skel, toppure, edges, res, ctor, verbose)
    if hang:
        seq.add_violation(res, 'c16:hang', "%s | skeleton %s edges %s"
                          % (hang, skel, sorted(edges)),
                          {'skeleton': skel, 'toppure': toppure,
                           'edges': [list(e) for e in edges]})


def run_item(item):
    res = seq.new_result()
    names = node_names(item['skel'])
    pairs = [(a, b) for a in names for b in names if a != b]
    combos = itertools.combinations(pairs, item['r'])
    lo, hi = item['range']
    n = 0
    for edges in itertools.islice(combos, lo, hi):
        if res.get('abort'):
            break
        one(item['skel'], item['toppure'], edges, res)
        if len(edges) >= 2:
            one(item['skel'], item['toppure'], edges, res, ctor=True)
        if len(edges) <= 2:
            for vb in ('arg', 'attr'):
                one(item['skel'], item['toppure'], edges, res, verbose=vb)
        n += 1
        if n == 1 and lo == 0 and item['r'] == 2 and not res['samples']:
            res['samples'].append({'skeleton': SKELETONS[item['skel']],
                                   'edges': [list(e) for e in edges]})
    res['scenarios'] = n
    res['outcomes'] = n
    return res


def ncombos(n, r):
    out = 1
    for i in range(r):
        out = out * (n - i) // (i + 1)
    return out


def items(tier, seed):
    th = tier == 'thorough'
    for skel in SKELETONS:
        names = node_names(skel)
        npairs = len(names) * (len(names) - 1)
        for toppure in (False, True):
            for r in range(0, (5 if th else 3) + 1):
                if (r >= 4 and skel == 'B') or (r == 5 and skel == 'C'):
                    continue
                total = ncombos(npairs, r)
                step = 4000
                for lo in range(0, total, step):
                    yield {'skel': skel, 'toppure': toppure, 'r': r,
                           'range': (lo, min(total, lo + step))}


def replay(rep):
    res = seq.new_result()
    one(rep['skeleton'], rep['toppure'], [tuple(e) for e in rep['edges']], res,
        rep.get('ctor', False), rep.get('verbose'))
    return sorted(v['msg'] for v in res['violations'])


def describe(rep):
    return "skeleton %s = %s, top %s, edges %s" % (
        rep['skeleton'], SKELETONS[rep['skeleton']],
        'PureScheduler' if rep['toppure'] else 'Scheduler', rep['edges'])
