"""C01 -- a job never starts before every one of its requirements has
finished (nested: whole nested run over; nothing inside a nested scheduler
before the nested scheduler's own requirements)"""
from . import _base
from .. import monitors

ID = 'C01'
RULE = _base.SPACE_TEXT + (
    "oracle: for every body entry (start / run_begin) and every requirement r,"
    " the end|raise|run_end|run_raise event of r precedes it in the global "
    "event sequence, and the enclosing scheduler's run began before. "
    "non-trivial = a job with >=2 requirements finishing in different loop "
    "iterations, or a requirement edge to/from a nested scheduler, started")
globals().update(_base.std(monitors.c01))


def items(tier, seed):
    yield from _base.general(tier)
