"""C01 -- a job never starts before every one of its requirements has
finished (nested: whole nested run over; nothing inside a nested scheduler
before the nested scheduler's own requirements)"""
from . import _base
from .. import monitors, spaces

ID = 'C01'
RULE = _base.SPACE_TEXT + (
    "oracle: for every body entry (start / run_begin) and every requirement r,"
    " the end|raise|run_end|run_raise event of r precedes it in the global "
    "event sequence, and the enclosing scheduler's run began before. "
    "non-trivial = a job with >=2 requirements finishing in different loop "
    "iterations, or a requirement edge to/from a nested scheduler, started")
globals().update(_base.std(monitors.c01))


def items(tier, seed):
    th = tier == 'thorough'
    yield from _base.general(tier)
    # a nested scheduler that ends abnormally (own timeout, critical job,
    # forever jobs, slow cancellations against a short shutdown_timeout,
    # windows with queued jobs) while something requires it
    aborts = [[('n', 'timeout', 1)], [('n', 'timeout', 1), ('n', 'sdt', 0)],
              [('x', 'forever', True), ('x', 'dur', 3)],
              [('x', 'forever', True), ('x', 'dur', 3), ('n', 'sdt', 0)],
              [('x', 'out', 'raise'), ('x', 'critical', True)]]
    slow = [[], [('x', 'cdelay', 1), ('y', 'cdelay', 1), ('p', 'cdelay', 1),
                 ('q', 'cdelay', 1)]]
    wins = [[], [('n', 'window', 1)], [('m', 'window', 1)]]
    prod = {'parts': [('mods', {'alts': aborts}), ('mods', {'alts': slow}),
                      ('mods', {'alts': wins})]}
    yield from spaces.mk(['nest22', 'nest32'] if th else ['nest22'],
                         force='product', fargs=prod,
                         job_open={'dur': [0, 2, 3]}, top_open={},
                         nest_open={'sdt': [0, 2]}, k=1, bound=2)
    yield from spaces.mk(['deep3'], force='product', fargs=prod,
                         job_open={'dur': [2, 3]}, top_open={},
                         nest_open={'timeout': [1, 2], 'sdt': [0]},
                         k=1, bound=2)
