"""C10 -- a nested scheduler behaves as one job; nesting is transparent"""
import copy

from . import _base
from .. import rel, mc, gen, spaces, scen, monitors, explore as X

ID = 'C10'
ENGINE = 'mc'
ASSUMPTIONS = _base.MC_ASSUMPTIONS + [
    "twin scenarios (nested/flattened, inner window+timeout present/removed) "
    "are compared as SETS of timed behaviours over ALL tie schedules; pairs "
    "over the execution cap are not compared (caps_hit)"]
RULE = ("(a,b) on NEST(<=3,<=3), DEEP3 with every critical combination along "
        "the chain, inner critical raises and inner timeouts, busy siblings: "
        "per-execution oracles -- nested run begins at the instant its last "
        "requirement finished and its successors start at the instant its run "
        "ended (C12's rule on the parent), verdict routing per level (False "
        "contained by a non-critical nested scheduler whose result() is False;"
        " a critical one raises the IDENTICAL exception object or "
        "TimeoutError, its parent aborting per C05), run()'s exception is the "
        "innermost object. (a') twin with the nested scheduler's window and "
        "timeout removed: siblings not downstream of it behave identically. "
        "(c) twin nested/flattened for critical nested schedulers without "
        "window, timeout, forever: set of timed behaviours of the atomic jobs "
        "equal. non-trivial = execution in which a nested run failed, or a "
        "compared twin pair; distinct as for the other engine-A checks")
CAP = 1500
SEQ, T, IT, KIND, NAME, DATA = range(6)


# ------------------------------------------------------------ per execution
def monitor(v):
    viols = []
    trig = False
    for m in (monitors.c04, monitors.c05, monitors.c12):
        vi, _ = m(v)
        viols += [('c10/' + k, msg) for k, msg in vi]
    post = v.ex.post['jobs']
    for s in v.children:
        if s == v.top or not v.evs('run_begin', s):
            continue
        x = v.exit(s)
        if x is None:
            continue
        if x[KIND] == 'run_raise' or (x[KIND] == 'run_end'
                                      and x[DATA] is False):
            trig = True
        if x[SEQ] < v.ret_seq and s in post:
            p = post[s]
            if x[KIND] == 'run_end' and (p.get('done') is not True
                                         or p.get('result') is not x[DATA]):
                viols.append(('c10:nested-result',
                              "nested run of %s returned %r but the parent "
                              "reads done=%r result()=%r"
                              % (s, x[DATA], p.get('done'), p.get('result'))))
            if x[KIND] == 'run_raise' and p.get('exc') is not x[DATA]:
                viols.append(('c10:nested-exception',
                              "nested run of %s raised %r but its "
                              "raised_exception() is %r"
                              % (s, x[DATA], p.get('exc'))))
            if x[KIND] == 'run_raise' and not v.spec[s].get('critical'):
                viols.append(('c10:noncritical-propagates',
                              "non-critical nested scheduler %s raises %r into"
                              " its parent" % (s, x[DATA])))
    oc = v.ex.outcome
    if oc[0] == 'raise' and type(oc[1]) is not TimeoutError:
        raised = [e[DATA] for e in v.log if e[KIND] == 'raise']
        if not any(oc[1] is r for r in raised):
            viols.append(('c10:exception-recreated',
                          "run() raises %r which is not the object raised by "
                          "any job %r" % (oc[1], raised)))
    return viols, trig


_std = _base.std(monitor)


# ------------------------------------------------------------------- twins
def flatten(scn):
    """the flattened graph of a tree whose nested schedulers are critical,
    unwindowed, untimed, not forever"""
    tree = copy.deepcopy(scn['tree'])

    def flat(node):
        """-> list of atomic nodes with requirements rewritten, plus
        (entries, exits) names"""
        out = []
        exits_of = {}        # nested name -> names standing for it
        kids = node['nodes']
        expanded = {}
        for k in kids:
            if gen.is_sched(k):
                expanded[k['name']] = flat(k)
        for k in kids:
            if not gen.is_sched(k):
                out.append(k)
            else:
                inner = expanded[k['name']]
                names = {j['name'] for j in inner}
                required = {r for j in inner for r in j['req']}
                exits = [j['name'] for j in inner if j['name'] not in required]
                for j in inner:
                    if not j['req']:
                        j['req'] = list(k['req'])
                    out.append(j)
                exits_of[k['name']] = exits if inner else list(k['req'])
        # rewrite requirements naming a nested scheduler (to a fixpoint:
        # empty nested schedulers forward their own requirements)
        changed = True
        while changed:
            changed = False
            for j in out:
                new = []
                for r in j['req']:
                    if r in exits_of:
                        new.extend(exits_of[r])
                        changed = True
                    else:
                        new.append(r)
                j['req'] = sorted(set(new))
            for n, ex in list(exits_of.items()):
                new = []
                for r in ex:
                    if r in exits_of and r != n:
                        new.extend(exits_of[r])
                    else:
                        new.append(r)
                exits_of[n] = new
        return out
    jobs = flat(tree)
    for i, j in enumerate(jobs):
        j['hash'] = i
    top = dict(tree, nodes=jobs)
    return {'tree': top, 'thash': scn.get('thash', 'asc')}


def atomic_beh(v):
    return rel.raw_behaviour(v, atomic_only=True)


def unaffected(scn):
    """siblings of 'n' (in the top scheduler) that are not downstream of it"""
    top = scn['tree']
    down = {'n'}
    changed = True
    while changed:
        changed = False
        for k in top['nodes']:
            if k['name'] not in down and set(k['req']) & down:
                down.add(k['name'])
                changed = True
    return [k['name'] for k in top['nodes'] if k['name'] not in down]


def compare_sets(A, B, what, scn, extra):
    if set(A) == set(B):
        return []
    onlyA = [b for b in A if b not in B]
    onlyB = [b for b in B if b not in A]
    if onlyA:
        side, beh, wit, other = 'first', onlyA[0], A[onlyA[0]], B
    else:
        side, beh, wit, other = 'second', onlyB[0], B[onlyB[0]], A
    return [{
        'key': 'c10:%s-differs' % what,
        'msg': "%s twins differ: a behaviour of the %s twin has no "
               "counterpart; closest difference %s | scenario %s"
               % (what, side, rel.closest(beh, other), gen.short(scn)),
        'replay': dict(extra, engine='mc-rel', scenario=scn,
                       scenario_short=gen.short(scn), witness_side=side,
                       witness_choices=wit)}]


def twin_flat(scn, stats):
    fl = flatten(scn)
    A, capA, _ = rel.behaviours(scn, CAP, stats, project=atomic_beh)
    B, capB, _ = rel.behaviours(fl, CAP, stats, project=atomic_beh)
    if capA or capB:
        return None
    return compare_sets(A, B, 'flatten', scn, {'twin': 'flat'}), len(A)


def twin_scope(scn, stats):
    """scn has a window and/or timeout on the non-critical nested 'n'"""
    other = gen.apply_mods(scn, [('n', 'window', None), ('n', 'timeout', None)])
    keep = set(unaffected(scn))

    def proj(v):
        return tuple(r for r in rel.raw_behaviour(v) if r[0] in keep)
    A, capA, _ = rel.behaviours(scn, CAP, stats, project=proj)
    B, capB, _ = rel.behaviours(other, CAP, stats, project=proj)
    if capA or capB:
        return None
    return compare_sets(A, B, 'scope', scn, {'twin': 'scope'}), len(A)


def run_item(item):
    kind = item.get('kind', 'mon')
    if kind == 'mon':
        return _std['run_item'](item)
    res = mc.new_result(None)
    res['groups'] = 0
    stats = X.Stats()
    fn = twin_flat if kind == 'flat' else twin_scope
    for scn in spaces.expand(item):
        if kind == 'scope' and not unaffected(scn):
            continue
        r = fn(scn, stats)
        res['scenarios'] += 2
        if r is None:
            res['capped'] += 1
            continue
        viols, n = r
        res['groups'] += 1
        res['nontrivial'] += 1
        res['outcomes'] += n
        if not res['samples'] and kind == 'flat':
            res['samples'].append({'nested': gen.short(scn),
                                   'flattened': gen.short(flatten(scn)),
                                   'behaviours': n})
        if viols and len(res['violations']) < 6:
            res['violations'].extend(viols)
    res['execs'] = stats.execs
    res['states'] = stats.points
    res['trans'] = stats.trans
    res['replay_checked'] = stats.replay_checked
    res['max_tie'] = stats.max_tie
    res['exhausted_scenarios'] = res['scenarios'] - 2 * res['capped']
    return res


def replay(rep):
    if rep.get('engine') == 'mc':
        return _std['replay'](rep)
    stats = X.Stats()
    fn = twin_flat if rep['twin'] == 'flat' else twin_scope
    r = fn(rep['scenario'], stats)
    return sorted(v['msg'] for v in (r[0] if r else []))


def describe(rep):
    if rep.get('engine') == 'mc':
        return _std['describe'](rep)
    scn = rep['scenario']
    if rep['witness_side'] == 'second':
        scn = flatten(scn) if rep['twin'] == 'flat' else gen.apply_mods(
            scn, [('n', 'window', None), ('n', 'timeout', None)])
    ex = scen.run_one(scn, rep['witness_choices'], drain=False)
    return "twin kind %s, scenario %s\nwitness execution (%s twin):\n%s" % (
        rep['twin'], rep['scenario_short'], rep['witness_side'],
        mc.View(ex).pretty())


# duration assignments that keep ties small enough for complete enumeration
STAGGER = [
    [('a', 'dur', 1), ('b', 'dur', 2), ('c', 'dur', 3), ('x', 'dur', 1),
     ('y', 'dur', 2), ('z', 'dur', 3)],
    [('a', 'dur', 2), ('b', 'dur', 1), ('c', 'dur', 1), ('x', 'dur', 2),
     ('y', 'dur', 1), ('z', 'dur', 1)],
    [('a', 'dur', 1), ('b', 'dur', 1), ('c', 'dur', 2), ('x', 'dur', 1),
     ('y', 'dur', 1), ('z', 'dur', 2)],
]


def items(tier, seed):
    th = tier == 'thorough'
    crit = {'mods': [('out', 'raise'), ('critical', True)]}
    chain = {'critical': [True], 'timeout': [1, 2], 'window': [1]}
    # (a)(b) per-execution oracles on nested spaces
    ej = dict(force='each_job', fargs=crit,
              job_open={'dur': [0, 2, 3], 'cdelay': [1]},
              top_open={'k': ['nest'], 'critical': [True]}, nest_open=chain,
              bound=2, kind='mon')
    yield from spaces.mk(['nest20', 'nest30'], force='none',
                         job_open={'dur': [0, 2]},
                         top_open={'k': ['nest'], 'window': [1]},
                         nest_open={'critical': [True], 'timeout': [1],
                                    'window': [1]},
                         k=2 if th else 1, bound=2, kind='mon')
    yield from spaces.mk(['nest21', 'nest22'], k=2, **ej)
    yield from spaces.mk(['nest32'], k=1 if th else 0, **ej)
    rich = dict(force='none',
                job_open={'dur': [0, 2, 3, 'never'], 'out': ['raise'],
                          'critical': [True]},
                top_open={'k': ['nest'], 'critical': [True]},
                nest_open=dict(chain, timeout=[0, 1, 2]), bound=2, kind='mon')
    yield from spaces.mk(['nest22'], k=2, **rich)
    yield from spaces.mk(['nest23'], k=2 if th else 1, **rich)
    if th:
        yield from spaces.mk(['nest33'], k=1, **rich)
    # a contained (non-critical) raise and a critical raise inside the
    # nested scheduler, every critical combination along the chain
    for shp, kk in ((['nest22'], 2 if th else 1),) + (
            ((['nest23'], 1),) if th else ()):
      yield from spaces.mk(
        shp, force='product',
        fargs={'parts': [
            ('outcomes', {'where': 'n'}),
            ('mods', {'alts': [[], [('n', 'critical', True)]]}),
            ('mods', {'alts': [[], [('top', 'k', 'nest')],
                               [('top', 'k', 'nest'),
                                ('top', 'critical', True)]]})]},
        job_open={'dur': [0, 2]}, top_open={}, nest_open={'timeout': [1, 2]},
        k=kk, bound=2, kind='mon')
    yield from spaces.mk(
        ['deep3'], force='product',
        fargs={'parts': [
            ('mods', {'alts': [
                [('n', 'critical', True), ('m', 'critical', True),
                 ('m', 'timeout', 1), ('p', 'dur', 3)],
                [('n', 'critical', True), ('m', 'critical', True),
                 ('n', 'timeout', 1), ('p', 'dur', 3)],
                [('n', 'critical', True), ('m', 'critical', True),
                 ('p', 'out', 'raise'), ('p', 'critical', True)]]}),
            ('mods', {'alts': [[], [('top', 'k', 'nest')],
                               [('top', 'k', 'nest'),
                                ('top', 'critical', True)]]})]},
        job_open={'dur': [0, 2]}, top_open={}, nest_open={'timeout': [2]},
        k=1, bound=2, kind='mon')
    yield from spaces.mk(['deep3'], force='each_job', fargs=crit,
                         job_open={'dur': [0, 2]},
                         top_open={'k': ['nest'], 'critical': [True]},
                         nest_open={'critical': [True], 'timeout': [1, 2]},
                         k=3 if th else 2, bound=2, kind='mon')
    # (a') scope of the nested window / timeout
    yield from spaces.mk(['nest32'], force='product',
                         fargs={'parts': [
                             ('mods', {'alts': [[('n', 'window', 1)],
                                                [('n', 'timeout', 1)],
                                                [('n', 'timeout', 0)],
                                                [('n', 'window', 1),
                                                 ('n', 'timeout', 2)]]}),
                             ('mods', {'alts': STAGGER})]},
                         job_open={'dur': [0, 3]}, top_open={},
                         nest_open={}, k=1 if th else 0, kind='scope')
    # (c) flattening
    allcrit = [('n', 'critical', True), ('m', 'critical', True)]
    fl = dict(force='mods', fargs={'alts': [allcrit]},
              job_open={'dur': [0, 2], 'out': ['raise'], 'critical': [True]},
              top_open={'k': ['nest']}, nest_open={}, kind='flat')
    yield from spaces.mk(['nest21', 'nest22'], k=2, **fl)
    fl2 = dict(fl, force='product',
               fargs={'parts': [('mods', {'alts': [allcrit]}),
                                ('mods', {'alts': STAGGER})]})
    yield from spaces.mk(['nest23', 'nest32'], k=1, **fl2)
    if th:
        yield from spaces.mk(['nest33'], k=0, **fl2)
    yield from spaces.mk(['deep3'], force='mods', fargs={'alts': [allcrit]},
                         job_open={'dur': [0, 2], 'out': ['raise'],
                                   'critical': [True]},
                         top_open={'k': ['nest']}, nest_open={},
                         k=2 if th else 1, kind='flat')
