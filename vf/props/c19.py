"""C19 -- the construction API builds exactly the documented requirement
edges"""
import collections

from .. import seq
from ..seq import SJob, SSched, SPure
from asynciojobs import Sequence

ID = 'C19'
ENGINE = 'seq'
ASSUMPTIONS = seq.SEQ_ASSUMPTIONS + [
    "statement alphabet restricted to the documented argument shapes: "
    "Sequence items are jobs / sequences / None; requirements are arbitrarily"
    " nested lists, tuples, sets of jobs / sequences / None"]
RULE = ("explicit-state search over ALL programs of <=3 statements (thorough: "
        "4 on the reduced alphabet) over a pool of 4 jobs, 2 schedulers and "
        "the sequences/jobs the program creates; alphabet: Sequence(*items, "
        "required=, scheduler=), seq.append(*items), seq.requires(*r), "
        "job.requires(*r, remove=), Job(required=, scheduler=), sched.add / "
        "update / remove, with argument shapes from a finite menu (job, None, "
        "existing sequence, inline nested Sequence, [j,k], (j,[k]), {j,k}, "
        "[[seq]], empty). every statement is run on the real objects and on a "
        "reference interpreter of the documented semantics; all required "
        "sets, memberships and Sequence.jobs lists are compared after every "
        "statement; KeyError expected exactly when removing an absent "
        "requirement/member. non-trivial = programs of >=2 statements; "
        "distinct = distinct canonical states reached (documented state plus "
        "the identity partition of the real objects' lists and sets)")

NJ = 4
J = [('j', i) for i in range(NJ)]
NONE = ('N',)


def S(*items):
    return ('S', tuple(items))


def Q(k):
    return ('q', k)


def L(*x):
    return ('L', tuple(x))


def T(*x):
    return ('T', tuple(x))


def Z(*x):
    return ('Z', tuple(x))


# ------------------------------------------------------------ the alphabet
def alphabet(nq, nn, reduced=False):
    """statement instances enabled when nq sequences and nn created jobs
    exist (at most 2 each)"""
    out = []
    qprev = [Q(k) for k in range(nq)]
    if nq < 2:
        item_menu = [(), (J[0],), (J[0], J[1]), (J[0], NONE, J[1]),
                     (J[1], J[0]), (J[0], S(J[1], J[2])), (NONE,),
                     (J[0], J[1], J[2]), (S(), J[1]), (J[0], S(), J[1]),
                     (J[0], S(NONE), J[1], NONE, J[2])]
        if qprev:
            item_menu += [(qprev[0],), (qprev[0], J[3]), (J[3], qprev[0])]
        req_menu = [None, J[3], T(J[2], L(J[3]))] + qprev[:1]
        if reduced:
            item_menu = item_menu[:4] + item_menu[9:10]
            req_menu = req_menu[:2]
        for items in item_menu:
            for r in req_menu:
                for s in (None, 0):
                    out.append(('Sequence', items, r, s))
    for k in range(nq):
        others = [Q(o) for o in range(nq) if o != k]
        menu = [(J[2],), (J[2], J[3]), (NONE,), (), (S(J[2], J[3]),),
                (J[3], NONE, J[2]), (S(),), (J[2], S(), J[3]),
                (S(NONE), J[2]), (NONE, J[3], S(), NONE, J[2])] \
            + [(o,) for o in others]
        if reduced:
            menu = menu[:4]
        for items in menu:
            out.append(('append', k, items))
        rmenu = [(J[3],), (None,), (L(J[2], J[3]),)] + [(o,) for o in others]
        for r in (rmenu[:2] if reduced else rmenu):
            out.append(('qrequires', k, r))
    for x in (0, 1):
        menu = [(J[2],), (J[2], J[3]), (L(J[2], L(J[3])),),
                (T(J[2], Z(J[3])),), (None,), (J[x],), (L(None, J[3]),),
                (Z(J[2], J[3]),)] + [(L(L(Q(k))),) for k in range(nq)] \
            + [(Q(k),) for k in range(nq)]
        if reduced:
            menu = menu[:2] + menu[8:]
        for r in menu:
            for rm in (False, True):
                out.append(('requires', x, r, rm))
    if nn < 2:
        for r in [None, J[0], L(J[0], J[1])] + [Q(k) for k in range(nq)][:1]:
            for s in (None, 0):
                out.append(('Job', r, s))
    if nn == 0 and not reduced:
        out.append(('JobPair', (J[0], J[1]), None))
        out.append(('JobPair', (J[0],), 0))
    for x in (0, 1):
        if nn >= 2:
            out.append(('nrequires', x, (J[3],), False))
            out.append(('nrequires', x, (J[0],), True))
    for s in (0, 1):
        out.append(('add', s, J[0]))
        for k in range(nq)[:1]:
            out.append(('add', s, Q(k)))
        out.append(('update', s, (J[0], J[1])))
        out.append(('update', s, ()))
        for k in range(nq)[:1]:
            out.append(('update', s, (Q(k), J[3])))
        out.append(('remove', s, J[0]))
        if not reduced:
            out.append(('remove', s, J[1]))
    return out


# ------------------------------------------------------- reference model
class Model:
    def __init__(self):
        self.req = {('j', i): set() for i in range(NJ)}
        self.mem = {0: set(), 1: set()}
        self.seqs = []           # [jobs list, scheduler]
        self.created = 0

    def jobs_of_items(self, items):
        out = []
        for it in items:
            if it is None or it == NONE:
                continue
            if it[0] == 'j' or it[0] == 'n':
                out.append(it)
            elif it[0] == 'q':
                out.extend(self.seqs[it[1]][0])
            elif it[0] == 'S':
                out.extend(self.sequence(it[1], None, None, register=False))
        return out

    def requires(self, job, reqs, remove=False):
        for r in reqs:
            if r is None or r == NONE:
                continue
            if r[0] in ('j', 'n'):
                if remove:
                    if r not in self.req[job]:
                        raise KeyError(r)
                    self.req[job].discard(r)
                elif r != job:
                    self.req[job].add(r)
            elif r[0] == 'q':
                jobs = self.seqs[r[1]][0]
                if jobs:
                    self.requires(job, [jobs[-1]], remove)
            elif r[0] == 'S':
                jobs = self.sequence(r[1], None, None, register=False)
                if jobs:
                    self.requires(job, [jobs[-1]], remove)
            else:
                self.requires(job, r[1], remove)

    def sequence(self, items, required, sched, register=True):
        jobs = self.jobs_of_items(items)
        for a, b in zip(jobs, jobs[1:]):
            self.requires(b, [a])
        if jobs:
            self.requires(jobs[0], [required])
        if sched is not None:
            self.mem[sched].update(jobs)
        if register:
            self.seqs.append([jobs, sched])
        return jobs

    def apply(self, st):
        kind = st[0]
        if kind == 'Sequence':
            self.sequence(st[1], st[2], st[3])
        elif kind == 'append':
            q = self.seqs[st[1]]
            if not st[2]:
                return
            new = self.jobs_of_items(st[2])
            combined = q[0] + new
            for i in range(max(1, len(q[0])), len(combined)):
                self.requires(combined[i], [combined[i - 1]])
            q[0] = q[0] + new
            if q[1] is not None:
                self.mem[q[1]].update(new)
        elif kind == 'qrequires':
            q = self.seqs[st[1]]
            if q[0]:
                self.requires(q[0][0], st[2])
        elif kind == 'requires':
            self.requires(J[st[1]], st[2], st[3])
        elif kind == 'Job':
            n = ('n', self.created)
            self.created += 1
            self.req[n] = set()
            self.requires(n, [st[1]])
            if st[2] is not None:
                self.mem[st[2]].add(n)
        elif kind == 'JobPair':
            for _ in (0, 1):
                n = ('n', self.created)
                self.created += 1
                self.req[n] = set()
                self.requires(n, list(st[1]))
                if st[2] is not None:
                    self.mem[st[2]].add(n)
        elif kind == 'nrequires':
            self.requires(('n', st[1]), st[2], st[3])
        elif kind == 'add':
            self.mem[st[1]].update(self.jobs_of_items([st[2]]))
        elif kind == 'update':
            self.mem[st[1]].update(self.jobs_of_items(st[2]))
        elif kind == 'remove':
            if st[2] not in self.mem[st[1]]:
                raise KeyError(st[2])
            self.mem[st[1]].discard(st[2])

    def state(self):
        return (tuple(sorted((k, tuple(sorted(v))) for k, v in self.req.items())),
                tuple(tuple(sorted(self.mem[s])) for s in (0, 1)),
                tuple((tuple(q[0]), q[1]) for q in self.seqs))


# ------------------------------------------------------------ real objects
class Real:
    def __init__(self):
        self.jobs = {('j', i): SJob('j%d' % i, i) for i in range(NJ)}
        self.scheds = {0: SSched('s0', 10), 1: SPure('s1', 11)}
        self.seqs = []
        self.created = 0
        self.names = {v: k for k, v in self.jobs.items()}

    def obj(self, tok):
        if tok is None or tok == NONE:
            return None
        k = tok[0]
        if k in ('j', 'n'):
            return self.jobs[tok]
        if k == 'q':
            return self.seqs[tok[1]]
        if k == 'S':
            return Sequence(*[self.obj(t) for t in tok[1]])
        if k == 'L':
            return [self.obj(t) for t in tok[1]]
        if k == 'T':
            return tuple(self.obj(t) for t in tok[1])
        if k == 'Z':
            return {self.obj(t) for t in tok[1]}
        raise ValueError(tok)

    def apply(self, st):
        kind = st[0]
        if kind == 'Sequence':
            s = None if st[3] is None else self.scheds[st[3]]
            self.seqs.append(Sequence(*[self.obj(t) for t in st[1]],
                                      required=self.obj(st[2]), scheduler=s))
        elif kind == 'append':
            self.seqs[st[1]].append(*[self.obj(t) for t in st[2]])
        elif kind == 'qrequires':
            self.seqs[st[1]].requires(*[self.obj(t) for t in st[2]])
        elif kind == 'requires':
            self.jobs[J[st[1]]].requires(*[self.obj(t) for t in st[2]],
                                         remove=st[3])
        elif kind == 'Job':
            tok = ('n', self.created)
            s = None if st[2] is None else self.scheds[st[2]]
            job = SJob('n%d' % self.created, 5 + self.created,
                       required=self.obj(st[1]), scheduler=s)
            self.created += 1
            self.jobs[tok] = job
            self.names[job] = tok
        elif kind == 'JobPair':
            shared = {self.obj(t) for t in st[1]}      # ONE set object
            s = None if st[2] is None else self.scheds[st[2]]
            for _ in (0, 1):
                tok = ('n', self.created)
                job = SJob('n%d' % self.created, 5 + self.created,
                           required=shared, scheduler=s)
                self.created += 1
                self.jobs[tok] = job
                self.names[job] = tok
        elif kind == 'nrequires':
            self.jobs[('n', st[1])].requires(*[self.obj(t) for t in st[2]],
                                             remove=st[3])
        elif kind == 'add':
            self.scheds[st[1]].add(self.obj(st[2]))
        elif kind == 'update':
            self.scheds[st[1]].update([self.obj(t) for t in st[2]])
        elif kind == 'remove':
            self.scheds[st[1]].remove(self.obj(st[2]))

    def name(self, job):
        return self.names.get(job, ('?', repr(job)))

    def alias_sig(self):
        """which mutable containers of the real objects are one and the same
        object: part of the search's deduplication key, because two programs
        that reach the same documented state but share a list or a set
        between two objects do not have the same futures (C19-w6m2)"""
        conts = [j.required for _, j in sorted(self.jobs.items())]
        conts += [self.scheds[s].jobs for s in (0, 1)]
        conts += [q.jobs for q in self.seqs]
        first = {}
        return tuple(first.setdefault(id(c), i) for i, c in enumerate(conts))

    def state(self):
        return (tuple(sorted((k, tuple(sorted(self.name(r) for r in
                                              j.required)))
                             for k, j in self.jobs.items())),
                tuple(tuple(sorted(self.name(j) for j in self.scheds[s].jobs))
                      for s in (0, 1)),
                tuple((tuple(self.name(j) for j in q.jobs),
                       None if q.scheduler is None else
                       (0 if q.scheduler is self.scheds[0] else 1))
                      for q in self.seqs))


def show(st):
    def t(tok):
        if tok is None or tok == NONE:
            return 'None'
        k = tok[0]
        if k == 'j':
            return 'j%d' % tok[1]
        if k == 'n':
            return 'n%d' % tok[1]
        if k == 'q':
            return 'q%d' % tok[1]
        inner = ', '.join(t(x) for x in tok[1])
        return {'S': 'Sequence(%s)', 'L': '[%s]', 'T': '(%s,)',
                'Z': '{%s}'}[k] % inner
    kind = st[0]
    if kind == 'Sequence':
        return "q = Sequence(%s%srequired=%s, scheduler=%s)" % (
            ', '.join(t(x) for x in st[1]), ', ' if st[1] else '', t(st[2]),
            'None' if st[3] is None else 's%d' % st[3])
    if kind == 'append':
        return "q%d.append(%s)" % (st[1], ', '.join(t(x) for x in st[2]))
    if kind == 'qrequires':
        return "q%d.requires(%s)" % (st[1], ', '.join(t(x) for x in st[2]))
    if kind == 'requires':
        return "j%d.requires(%s, remove=%s)" % (
            st[1], ', '.join(t(x) for x in st[2]), st[3])
    if kind == 'Job':
        return "n = Job(required=%s, scheduler=%s)" % (
            t(st[1]), 'None' if st[2] is None else 's%d' % st[2])
    if kind == 'JobPair':
        return "S = {%s}; n = Job(required=S, scheduler=%s); n' = Job(" \
            "required=S, scheduler=%s)" % (', '.join(t(x) for x in st[1]),
                                          st[2], st[2])
    if kind == 'nrequires':
        return "n%d.requires(%s, remove=%s)" % (
            st[1], ', '.join(t(x) for x in st[2]), st[3])
    if kind == 'update':
        return "s%d.update([%s])" % (st[1], ', '.join(t(x) for x in st[2]))
    return "s%d.%s(%s)" % (st[1], kind, t(st[2]))


def run_program(prog):
    """-> (messages about the LAST statement, model, stopped?)"""
    model, real = Model(), Real()
    msgs = []
    stopped = False
    for i, st in enumerate(prog):
        msgs = []
        mexc = rexc = None
        try:
            model.apply(st)
        except KeyError as exc:
            mexc = exc
        try:
            with seq.captured(), seq.watchdog():
                real.apply(st)
        except Exception as exc:
            rexc = exc
        if mexc is not None or rexc is not None:
            if mexc is None:
                msgs.append("%s raises %r; the documented semantics raises "
                            "nothing" % (show(st), rexc))
            elif rexc is None:
                msgs.append("%s raises nothing, expected KeyError (removing "
                            "something absent)" % show(st))
            elif not isinstance(rexc, KeyError):
                msgs.append("%s raises %r, expected KeyError"
                            % (show(st), rexc))
            stopped = True
            break
        ms, rs = model.state(), real.state()
        if ms != rs:
            what = []
            for label, a, b in zip(('required', 'members', 'sequences'),
                                   rs, ms):
                if a != b:
                    if label == 'required':
                        da, db = dict(a), dict(b)
                        diff = {k: (da.get(k), db.get(k)) for k in db
                                if da.get(k) != db.get(k)}
                        what.append("required sets (real, expected) differ: "
                                    "%s" % diff)
                    else:
                        what.append("%s: real %s expected %s" % (label, a, b))
            msgs.append("after %s: %s" % (show(st), '; '.join(what)))
            stopped = True
            break
    model.alias = real.alias_sig()
    return msgs, model, stopped


def search(first, depth, res, reduced_after):
    prog0 = [first]
    msgs, model, stopped = run_program(prog0)
    res['trans'] += 1
    res['validated'] += 1
    res['execs'] += 1
    report(res, msgs, prog0)
    if stopped:
        res['states'] += 1
        return
    seen = {(model.state(), model.alias)}
    frontier = collections.deque([prog0])
    while frontier and not res.get('abort'):
        prog = frontier.popleft()
        if len(prog) >= depth:
            continue
        _, model, _ = run_program(prog)
        reduced = len(prog) >= reduced_after
        for st in alphabet(len(model.seqs), model.created, reduced):
            p2 = prog + [st]
            msgs, m2, stopped = run_program(p2)
            res['trans'] += 1
            res['validated'] += 1
            res['execs'] += 1
            res['nontrivial'] += 1
            report(res, msgs, p2)
            if stopped:
                continue
            k = (m2.state(), m2.alias)
            if k not in seen:
                seen.add(k)
                frontier.append(p2)
    res['states'] += len(seen)


def classify(msg, st):
    if 'raises' in msg:
        return 'c19:%s:exception' % st[0]
    return 'c19:%s:state' % st[0]


def report(res, msgs, prog):
    for m in msgs[:1]:
        key = classify(m, prog[-1])
        if prog[-1][0] == 'requires' and prog[-1][3]:
            key += ':remove'
        seq.add_violation(res, key, "%s | program: %s"
                          % (m, '; '.join(show(s) for s in prog)),
                          {'program': prog}, cap=12)


def run_item(item):
    res = seq.new_result()
    search(item['first'], item['depth'], res, item['reduced_after'])
    res['scenarios'] = 1
    res['outcomes'] = res['states']
    if item.get('sample'):
        res['samples'].append({'first_statement': show(item['first']),
                               'programs_run': res['execs'],
                               'states': res['states']})
    return res


def items(tier, seed):
    th = tier == 'thorough'
    for i, st in enumerate(alphabet(0, 0)):
        yield {'first': st, 'depth': 4 if th else 3,
               'reduced_after': 2 if th else 2, 'sample': i == 5}


def detuple(x):
    if isinstance(x, list):
        return tuple(detuple(y) for y in x)
    return x


def replay(rep):
    prog = [detuple(st) for st in rep['program']]
    msgs, _, _ = run_program(prog)
    return sorted(msgs)


def describe(rep):
    return "program:\n  " + "\n  ".join(show(detuple(s))
                                        for s in rep['program'])
