"""C17 -- neighbour, reachability and traversal queries agree with the
requirements"""
import collections
import itertools

from .. import seq, gen
from ..seq import SJob, SSched, SPure

ID = 'C17'
ENGINE = 'seq'
ASSUMPTIONS = seq.SEQ_ASSUMPTIONS
RULE = ("(1) every labelled DAG on <=4 nodes (thorough 5), plus an outsider "
        "requirement, every non-empty start set (size <=3 at n=5), every "
        "forever assignment for exit_jobs (n<=4), on PureScheduler and "
        "Scheduler; (2) explicit-state search over edit histories on a pool of"
        " 3 (thorough 4) jobs: add/remove job, add/remove edge (acyclic), from"
        " every reachable state incl. the hidden back-link sets, all queries "
        "re-asked after every edit; (3) iterate_jobs on all tree skeletons of "
        "depth <=3. oracle: reference one-step / transitive relations "
        "restricted to members, unions over start sets, entry/exit "
        "definitions, each job visited once. non-trivial = graphs with >=2 "
        "edges or states reached by a removal; distinct = distinct graphs / "
        "search states")
NAMES = 'abcde'


def query_all(sched, jobs, members, edges, forever, msgs, max_starts=None,
              what=''):
    """compare every query on `sched` with the reference"""
    byname = {j.vname: j for j in jobs}
    mem = set(members)

    def names(x):
        return sorted(j.vname for j in x)

    def cmp(label, got, want):
        got = list(got)
        if len(got) != len(set(got)) or {j.vname for j in got} != set(want):
            msgs.append("%s%s returns %s, expected %s"
                        % (what, label, names(got), sorted(want)))
    cmp("entry_jobs()", sched.entry_jobs(),
        {n for n in mem if not any(b == n for a, b in edges)})
    # NB: entry = requires nothing at all
    for disc in (True, False):
        want = {n for n in mem if not seq.downs(n, edges, mem)
                and not (disc and n in forever)}
        cmp("exit_jobs(discard_forever=%s)" % disc,
            sched.exit_jobs(discard_forever=disc), want)
    for starts in seq.subsets(sorted(mem), 1, max_starts):
        objs = [byname[s] for s in starts]
        want_p = set().union(*[seq.ups(s, edges, mem) for s in starts])
        want_s = set().union(*[seq.downs(s, edges, mem) for s in starts])
        cmp("predecessors(%s)" % ','.join(starts),
            sched.predecessors(*objs), want_p)
        cmp("successors(%s)" % ','.join(starts),
            sched.successors(*objs), want_s)
        cmp("predecessors_upstream(%s)" % ','.join(starts),
            sched.predecessors_upstream(*objs),
            seq.reach_up(starts, edges, mem))
        cmp("successors_downstream(%s)" % ','.join(starts),
            sched.successors_downstream(*objs),
            seq.reach_down(starts, edges, mem))


def _one_dag(n, edges, pure, outsider, res):
    rep = {'kind': 'dag', 'n': n, 'edges': [list(e) for e in edges],
           'pure': pure, 'outsider': outsider}
    msgs = []
    fsets = list(seq.subsets(range(n))) if n <= 4 else [()]
    first = True
    for fv in fsets:
        jobs = [SJob(NAMES[i], i, forever=(i in fv)) for i in range(n)]
        for i, j in edges:
            jobs[j].requires(jobs[i])
        named = {(NAMES[i], NAMES[j]) for i, j in edges}
        if outsider is not None:
            o = SJob('o', 7)
            jobs[outsider].requires(o)
            named.add(('o', NAMES[outsider]))
        sched = (SPure if pure else SSched)('top', 0, *jobs)
        members = [NAMES[i] for i in range(n)]
        if first:
            query_all(sched, jobs, members, named,
                      {NAMES[i] for i in fv}, msgs,
                      max_starts=3 if n >= 5 else None)
            first = False
        else:
            for disc in (True, False):
                got = list(sched.exit_jobs(discard_forever=disc))
                want = {m for m in members
                        if not seq.downs(m, named, set(members))
                        and not (disc and m in {NAMES[i] for i in fv})}
                if {j.vname for j in got} != want or len(got) != len(want):
                    msgs.append("exit_jobs(discard_forever=%s) with forever=%s"
                                " returns %s, expected %s"
                                % (disc, [NAMES[i] for i in fv],
                                   sorted(j.vname for j in got), sorted(want)))
        res['trans'] += 1
        res['validated'] += 1
    res['execs'] += 1
    res['states'] += 1
    if len(edges) >= 2:
        res['nontrivial'] += 1
    for m in msgs[:2]:
        seq.add_violation(res, 'c17:' + m.split('(')[0].strip(),
                          "%s | DAG on %d nodes, edges (i,j: j requires i) %s"
                          "%s, %s" % (m, n, sorted(edges),
                                      '' if outsider is None else
                                      ' + outsider required by %s'
                                      % NAMES[outsider],
                                      'PureScheduler' if pure else 'Scheduler'),
                          rep)


def one_dag(n, edges, pure, outsider, res):
    _, hang = seq.guarded(_one_dag, n, edges, pure, outsider, res)
    if hang:
        seq.add_violation(res, 'c17:hang', "%s | DAG on %d nodes, edges %s"
                          % (hang, n, sorted(edges)),
                          {'kind': 'dag', 'n': n,
                           'edges': [list(e) for e in edges], 'pure': pure,
                           'outsider': outsider})


# ------------------------------------------------------------ edit histories
def apply_history(n, hist, pure=False):
    out, hang = seq.guarded(_apply_history, n, hist, pure)
    if hang:
        return None, None, set(), set(), ["after %s: %s" % (hist[-1:], hang)]
    return out


def _apply_history(n, hist, pure=False):
    pool = [SJob(NAMES[i], i) for i in range(n)]
    sched = (SPure if pure else SSched)('top', 0)
    members = set()
    edges = set()
    msgs = []
    for op in hist:
        msgs = []
        kind = op[0]
        if kind == 'add':
            sched.add(pool[op[1]])
            members.add(NAMES[op[1]])
        elif kind == 'rm':
            sched.remove(pool[op[1]])
            members.discard(NAMES[op[1]])
        elif kind == 'edge':
            pool[op[2]].requires(pool[op[1]])
            edges.add((NAMES[op[1]], NAMES[op[2]]))
        elif kind == 'unedge':
            pool[op[2]].requires(pool[op[1]], remove=True)
            edges.discard((NAMES[op[1]], NAMES[op[2]]))
        if len(op) < 4 or op[3] != 'noquery':
            query_all(sched, pool, members, edges, set(), msgs,
                      what="after %s: " % (list(op),))
    return sched, pool, members, edges, msgs


def enabled(n, members, edges):
    """every edit, once followed by all the queries and once not (so that
    several edits can happen between two queries)"""
    for i in range(n):
        op = ('rm', i) if NAMES[i] in members else ('add', i)
        yield op
        yield op + (None, 'noquery')
    for i in range(n):
        for j in range(n):
            if i == j:
                continue
            e = (NAMES[i], NAMES[j])
            if e in edges:
                yield ('unedge', i, j)
                yield ('unedge', i, j, 'noquery')
            elif seq.acyclic(NAMES[:n], edges | {e}):
                yield ('edge', i, j)
                yield ('edge', i, j, 'noquery')


def canon(pool, members, edges):
    return (frozenset(members), frozenset(edges),
            tuple(frozenset(s.vname for s in j._s_successors) for j in pool))


def edit_search(n, res, pure, prefix=(), maxlen=None):
    """breadth-first over edit histories extending `prefix`; maxlen bounds
    the history length (None: until no new state appears)"""
    prefix = [tuple(o) for o in prefix]
    _, pool, members, edges, _ = apply_history(n, prefix, pure)
    seen = {canon(pool, members, edges)}
    frontier = collections.deque([prefix])
    hist = []
    while frontier and not res.get('abort'):
        hist = frontier.popleft()
        if maxlen is not None and len(hist) >= maxlen:
            continue
        _, _, members, edges, _ = apply_history(n, hist, pure)
        for op in list(enabled(n, members, edges)):
            h2 = hist + [op]
            _, pool, m2, e2, msgs = apply_history(n, h2, pure)
            if pool is None:
                seq.add_violation(res, 'c17:edit:hang', msgs[0],
                                  {'kind': 'edits', 'n': n, 'pure': pure,
                                   'history': [list(o) for o in h2]})
                continue
            res['trans'] += 1
            res['validated'] += 1
            res['execs'] += 1
            for m in msgs[:1]:
                seq.add_violation(res, 'c17:edit:' + m.split(': ')[1]
                                  .split('(')[0], m + " | history %s" % h2,
                                  {'kind': 'edits', 'n': n, 'pure': pure,
                                   'history': [list(o) for o in h2]})
            k = canon(pool, m2, e2)
            if k not in seen:
                seen.add(k)
                frontier.append(h2)
                if op[0] in ('rm', 'unedge'):
                    res['nontrivial'] += 1
    res['states'] += len(seen)
    res['samples'].append({'edit_search_pool': n, 'states': len(seen),
                           'a_longest_history': [list(o) for o in hist]})


# ------------------------------------------------------------- iterate_jobs
TREES = [
    {'a': None},
    {'a': None, 'b': None, 'n': {'x': None, 'y': None}},
    {'a': None, 'n': {'x': None, 'm': {'p': None, 'q': None}}, 'k': {'u': None}},
    {'n': {}, 'a': None},
    {'n': {'m': {'k': {'p': None}}}},
    {},
]


def check_tree(tree, pure, res):
    atoms, scheds = [], []
    counter = [1]

    def mk(name, kids):
        h = counter[0]
        counter[0] += 1
        if kids is None:
            atoms.append(name)
            return SJob(name, h)
        scheds.append(name)
        return SSched(name, h, *[mk(k, v) for k, v in kids.items()])
    top = (SPure if pure else SSched)('top', 0,
                                      *[mk(k, v) for k, v in tree.items()])
    msgs = []
    got = [j.vname for j in top.iterate_jobs()]
    if sorted(got) != sorted(atoms):
        msgs.append("iterate_jobs() yields %s, the atomic jobs are %s"
                    % (got, sorted(atoms)))
    got = [j.vname for j in top.iterate_jobs(scan_schedulers=True)]
    if sorted(got) != sorted(atoms + scheds + ['top']):
        msgs.append("iterate_jobs(scan_schedulers=True) yields %s, expected "
                    "each of %s once" % (got, sorted(atoms + scheds + ['top'])))
    res['execs'] += 1
    res['trans'] += 2
    res['states'] += 1
    res['validated'] += 2
    res['nontrivial'] += 1
    for m in msgs:
        seq.add_violation(res, 'c17:iterate_jobs', "%s | tree %s" % (m, tree),
                          {'kind': 'tree', 'tree': tree, 'pure': pure})


def run_item(item):
    res = seq.new_result()
    if item['kind'] == 'edits':
        edit_search(item['n'], res, item['pure'], item.get('prefix', ()),
                    item.get('maxlen'))
    elif item['kind'] == 'trees':
        for t in TREES:
            for pure in (False, True):
                check_tree(t, pure, res)
    else:
        dags = gen.dags(item['n'])
        lo, hi = item['range']
        for edges in dags[lo:hi]:
            if res.get('abort'):
                break
            one_dag(item['n'], edges, item['pure'], None, res)
            if item['n'] <= 3:
                for o in range(item['n']):
                    one_dag(item['n'], edges, item['pure'], o, res)
        res['scenarios'] = hi - lo
        res['outcomes'] = hi - lo
        if lo == 0 and item['n'] == 4 and not item['pure']:
            res['samples'].append({'dag_edges': [list(e) for e in dags[200]]})
    return res


def items(tier, seed):
    th = tier == 'thorough'
    for n in (1, 2, 3, 4) + ((5,) if th else ()):
        total = {1: 1, 2: 3, 3: 25, 4: 543, 5: 29281}[n]
        step = 40 if n <= 4 else 400
        for pure in (False, True):
            if n == 5 and pure:
                continue
            for lo in range(0, total, step):
                yield {'kind': 'dag', 'n': n, 'pure': pure,
                       'range': (lo, min(total, lo + step))}
    yield {'kind': 'trees'}
    for pure in (False, True):
        yield {'kind': 'edits', 'n': 3, 'pure': pure}
    if th:
        # pool of 4: histories of up to 6 edits, split on the first two
        for i in range(4):
            for j in range(4):
                if i != j:
                    for q in ((), ('noquery',)):
                        yield {'kind': 'edits', 'n': 4, 'pure': False,
                               'prefix': [('add', i), ('add', j) + (
                                   (None,) + q if q else ())], 'maxlen': 6}


def replay(rep):
    res = seq.new_result()
    if rep['kind'] == 'edits':
        *_, msgs = apply_history(rep['n'], [tuple(o) for o in rep['history']],
                                 rep['pure'])
        return sorted(msgs)
    if rep['kind'] == 'tree':
        check_tree(rep['tree'], rep['pure'], res)
    else:
        one_dag(rep['n'], [tuple(e) for e in rep['edges']], rep['pure'],
                rep['outsider'], res)
    return sorted(v['msg'] for v in res['violations'])


def describe(rep):
    return "replay record: %r" % {k: v for k, v in rep.items()
                                  if k != 'message'}
