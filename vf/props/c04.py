"""C04 -- the verdict of a run, and its diagnosis, are exactly determined by
what happened"""
from . import _base
from .. import monitors, spaces

ID = 'C04'
RULE = _base.SPACE_TEXT + (
    "oracle: per scheduler run, c = first raise of a critical direct job, f ="
    " completion finishing its last non-forever job, E = begin + timeout; the"
    " earliest decides (ties: any tied cause, except that a critical raise "
    "logged before the last completion excludes success); observed verdict "
    "(True / False / TimeoutError / identical exception object) must be "
    "admissible and failed_time_out(), failed_critical(), why() must name "
    "exactly it. non-trivial = a failure is admissible or two causes tie. "
    "non-initial state: a scheduler that failed once (timeout, critical "
    "job), was emptied with remove() and runs again must succeed with a "
    "clean diagnosis")


def emptied(v):
    """second run of a scheduler whose first run failed and which was then
    emptied with remove(): an empty scheduler succeeds, so the run reports
    success and the diagnosis names no cause (non-initial state, C04-w6m1)"""
    viols = []
    top = v.ex.scn['tree']['name']
    if v.ex.outcome[0] in ('deadlock', 'horizon'):
        return viols, False
    d = v.ex.post['scheds'][top]
    if v.ex.outcome != ('return', True):
        viols.append(('c04:emptied:verdict', "the run of the emptied scheduler"
                      " %s ends with %r instead of returning True"
                      % (top, v.ex.outcome)))
    elif d['fto'] or d['fcrit'] or d['why'] != 'FINE':
        viols.append(('c04:emptied:diagnosis', "the run of the emptied "
                      "scheduler %s succeeded but failed_time_out()=%r "
                      "failed_critical()=%r why()=%r (left over from its "
                      "previous, failed run)" % (top, d['fto'], d['fcrit'],
                                                 d['why'])))
    return viols, True


def monitor(v):
    if v.ex.scn.get('rerun') == 'emptied':
        return emptied(v)
    return monitors.c04(v)


globals().update(_base.std(monitor))

JOB = {'out': ['raise'], 'critical': [True], 'dur': [0, 2, 3, 'never'],
       'forever': [True]}
SCH = {'critical': [True], 'timeout': [0, 1, 2, 3], 'k': ['nest']}


TOPS = [[], [('top', 'k', 'nest')],
        [('top', 'k', 'nest'), ('top', 'critical', True)]]


def items(tier, seed):
    th = tier == 'thorough'
    # non-initial state: the scheduler has failed once (timeout, critical
    # job), was emptied, and runs again
    RE = [('', 'rerun', 'emptied')]
    yield from spaces.mk(
        ['flat23', 'nest21'], force='product',
        fargs={'parts': [
            ('mods', {'alts': [RE + [('top', 'timeout', 1), ('a', 'dur', 3)],
                               RE + [('top', 'timeout', 0)],
                               RE + [('a', 'out', 'raise'),
                                     ('a', 'critical', True)]]}),
            ('mods', {'alts': TOPS})]},
        job_open={'dur': [0, 2], 'out': ['raise']}, top_open={'window': [1]},
        nest_open={}, k=1, bound=1)
    # every assignment return / raise / critical raise to the jobs, under
    # each kind of top scheduler, with and without a timeout
    yield from spaces.mk(
        ['flat23'], force='product',
        fargs={'parts': [
            ('outcomes', {}),
            ('mods', {'alts': TOPS}),
            ('mods', {'alts': [[], [('top', 'timeout', 1)],
                               [('top', 'timeout', 2)]]})]},
        job_open={'dur': [0, 2, 'never'] if th else [0, 2],
                  'forever': [True]},
        top_open={'window': [1]} if th else {}, nest_open={},
        extra=_base.X_THASH, k=1, bound=3 if th else 2)
    # jobs that answer the cancellation at expiry by raising their own
    # exception; exceptions that do not derive from Exception
    yield from spaces.mk(
        ['flat23', 'nest22'], force='product',
        fargs={'parts': [
            ('each_job', {'mods': [('cx', True), ('critical', True),
                                   ('dur', 3)]}),
            ('mods', {'alts': TOPS}),
            ('mods', {'alts': [[('top', 'timeout', 1)],
                               [('n', 'timeout', 1)],
                               [('n', 'timeout', 1), ('n', 'critical', True)]
                               ]})]},
        job_open={'dur': [0, 2], 'out': ['raise']}, top_open={},
        nest_open={}, k=1 if th else 0, bound=2)
    yield from spaces.mk(
        ['flat23'], force='product',
        fargs={'parts': [
            ('outcomes', {'values': [[('out', 'ret')],
                                     [('out', 'raise_base')],
                                     [('out', 'raise_base'),
                                      ('critical', True)]]}),
            ('mods', {'alts': TOPS})]},
        job_open={'dur': [2]}, top_open={'timeout': [2]}, nest_open={},
        k=1 if th else 0, bound=2)
    # the verdict must not depend on how the shutdown phase goes
    SLOW = [[('a', 'sd', 3), ('top', 'sdt', 0)], [('a', 'sd', 3)],
            [('x', 'sd', 3), ('n', 'sdt', 0)],
            [('x', 'sd', 3), ('n', 'sdt', 0), ('n', 'critical', True)],
            [('a', 'sd', 1), ('a', 'k', 'coro'), ('top', 'sdt', None)]]
    yield from spaces.mk(
        ['flat2', 'nest21', 'nest22'], force='product',
        fargs={'parts': [('mods', {'alts': SLOW}), ('mods', {'alts': TOPS})]},
        job_open={'out': ['raise'], 'critical': [True], 'dur': [0, 2]},
        top_open={'timeout': [1, 2]}, nest_open={'timeout': [1]},
        k=2 if th else 1, bound=2)
    # every position of a timeout relative to completions, critical raises
    yield from spaces.mk(
        ['flat123'], force='mods',
        fargs={'alts': [[('top', 'timeout', 0)], [('top', 'timeout', 1)],
                        [('top', 'timeout', 2)], [('top', 'timeout', 3)]]},
        job_open=JOB if th else {'out': ['raise'], 'critical': [True],
                                 'dur': [0, 2, 'never']},
        top_open={'k': ['nest'], 'critical': [True], 'window': [1]},
        nest_open={}, extra=_base.X_THASH if th else [], k=2,
        bound=3 if th else 1)
    # nesting: a critical and a non-critical raise inside the nested
    # scheduler, all critical combinations along the chain
    for shp, kk in ((['nest22'], 2 if th else 1),) + (
            ((['nest23'], 1),) if th else ()):
      yield from spaces.mk(
        shp, force='product',
        fargs={'parts': [
            ('outcomes', {'where': 'n'}),
            ('mods', {'alts': [[], [('n', 'critical', True)]]}),
            ('mods', {'alts': TOPS})]},
        job_open={'dur': [0, 2]},
        top_open={'timeout': [1, 2]}, nest_open={'timeout': [0, 1, 2]},
        k=kk, bound=2)
    yield from spaces.mk(
        ['nest21', 'nest22'], force='each_job',
        fargs={'mods': [('out', 'raise'), ('critical', True)]},
        job_open={'dur': [0, 2]},
        top_open={'k': ['nest'], 'critical': [True], 'timeout': [0, 1, 2]},
        nest_open={'critical': [True], 'timeout': [0, 1, 2]},
        k=2, bound=2)
    yield from spaces.mk(
        ['nest21', 'nest22'] + (['nest32'] if th else []), force='none',
        job_open={'dur': [0, 2, 'never'], 'out': ['raise'],
                  'critical': [True]},
        top_open={'k': ['nest'], 'critical': [True], 'timeout': [0, 1, 2, 3]},
        nest_open={'critical': [True], 'timeout': [0, 1, 2, 3],
                   'forever': [True]},
        k=2 if th else 1, bound=2)
    yield from spaces.mk(
        ['nest32'], force='mods',
        fargs={'alts': [[('n', 'critical', True)],
                        [('n', 'critical', True), ('top', 'k', 'nest'),
                         ('top', 'critical', True)]]},
        job_open={'out': ['raise'], 'critical': [True]},
        top_open={}, nest_open={'timeout': [1]},
        k=2, bound=2)
    yield from spaces.mk(
        ['deep3'], force='each_job',
        fargs={'mods': [('out', 'raise'), ('critical', True)]},
        job_open={'dur': [2], 'out': ['raise']},
        top_open={'k': ['nest'], 'critical': [True], 'timeout': [1, 2]},
        nest_open={'critical': [True], 'timeout': [0, 1, 2]},
        k=2, bound=2)
