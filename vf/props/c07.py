"""C07 -- a window of N is never exceeded, and is scoped to its scheduler"""
from . import _base
from .. import monitors, spaces

ID = 'C07'
RULE = _base.SPACE_TEXT + (
    "oracle: replaying the log, the number of direct jobs of a scheduler "
    "between body entry and body exit (end/raise/cancel_done; nested: "
    "run_begin..run_end/raise/cancel) never exceeds its jobs_window, each "
    "scheduler counted on its own. non-trivial = some job was queued "
    "(a task existed for it while its body had not been entered)")
globals().update(_base.std(monitors.c07))

JOB = {'out': ['raise'], 'critical': [True], 'forever': [True],
       'dur': ['never'], 'cdelay': [1], 'k': ['coro']}


def items(tier, seed):
    th = tier == 'thorough'
    yield from spaces.mk(
        ['flat23'], force='product',
        fargs={'parts': [('windows', {'values': [1, 2]}),
                         ('durs', {'values': [0, 1, 2] if th else [1, 2]})]},
        job_open=JOB if th else dict(JOB, dur=[0, 'never']),
        top_open={'timeout': [0, 1, 2, 3], 'k': ['nest']},
        extra=_base.X_THASH, pre=True, k=2, bound=3 if th else 2)
    yield from spaces.mk(
        ['flat4'], th, force='windows', fargs={'values': [1, 2, 3]},
        job_open={'dur': [0, 2], 'out': ['raise'], 'cdelay': [1]},
        top_open={'timeout': [1, 2]}, k=2 if th else 1, bound=2 if th else 1)
    # more entry jobs than slots plus successors: 5 jobs, few edges
    yield from spaces.mk(
        ['flat5s'], th, force='windows', fargs={'values': [1, 2, 3]},
        job_open={'dur': [0, 2]}, top_open={}, k=1, bound=3 if th else 2)
    yield from spaces.mk(
        ['flat6s'], force='windows', fargs={'values': [1, 2, 3]},
        job_open={}, top_open={}, k=0, bound=2)
    yield from spaces.mk(
        ['nest32'], force='windows', fargs={'values': [None, 1, 2]},
        job_open={'dur': [0, 2], 'out': ['raise'], 'critical': [True],
                  'cdelay': [1]},
        top_open={'timeout': [1, 2]},
        nest_open={'timeout': [1], 'forever': [True], 'critical': [True]},
        k=2 if th else 1, bound=2 if th else 1)
    yield from spaces.mk(
        ['deep3'], force='windows', fargs={'values': [None, 1]},
        job_open={'dur': [0, 2], 'out': ['raise'], 'critical': [True]},
        top_open={'timeout': [1, 2]}, nest_open={'timeout': [1]},
        k=2 if th else 1, bound=2)
