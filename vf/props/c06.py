"""C06 -- non-critical failures are contained: the rest of the run is
unaffected (metamorphic twins)"""
import itertools

from . import _base
from .. import rel, mc, gen, spaces, scen, explore as X

ID = 'C06'
ENGINE = 'mc'
ASSUMPTIONS = _base.MC_ASSUMPTIONS + [
    "twin scenarios are compared as SETS of timed behaviours over ALL their "
    "tie schedules (no deviation bound); a pair whose schedule space exceeds "
    "the execution cap is not compared and is reported under caps_hit"]
RULE = ("twins X (all jobs of F return) / X_F (all jobs of F raise), F = every"
        " non-empty subset of the non-critical jobs of every admissible "
        "scenario in FLAT(<=4), NEST(3,2) with windows none/1/2 and <=k other "
        "attribute deviations; oracle: the set, over all tie schedules, of "
        "timed behaviours (per job outside F: start time, exit kind, exit "
        "time; per scheduler: begin, exit kind, exit time, verdict; per job "
        "in F: times only) is the same for X and X_F, and raised_exception() "
        "of every finished member of F is the very object it raised. "
        "non-trivial = pairs in which some job outside F starts after a member"
        " of F finished; distinct = distinct (X, F)")
CAP = 1500


def post_exc(F):
    def mon(v):
        out = []
        for j in F:
            f = v.fin(j)
            if f is not None and f[0] < v.ret_seq and f[3] == 'raise':
                p = v.ex.post['jobs'][j]
                if p.get('exc') is not f[5]:
                    out.append(('c06:exception-lost',
                                "%s raised %r but raised_exception() is %r "
                                "after the run" % (j, f[5], p.get('exc'))))
                # jobs requiring j do start once all their requirements
                # have finished
        return out
    return mon


def candidates(scn):
    return [n['name'] for n, _ in gen.walk(scn['tree'])
            if not gen.is_sched(n) and not n.get('critical')
            and n['out'] == 'ret']


def subsets(names, maxsize):
    for r in range(1, min(maxsize, len(names)) + 1):
        yield from itertools.combinations(names, r)


def compare(scn, F, behX, stats, raise_out='raise'):
    """-> (violations, capped, nontrivial)"""
    XF = gen.apply_mods(scn, [(j, 'out', raise_out) for j in F])
    behF, capF, mv = rel.behaviours(XF, CAP, stats, monitor=post_exc(F))
    viols = []
    for key, msg, ex in mv:
        viols.append({'key': key,
                      'msg': '%s | scenario %s | schedule %s'
                             % (msg, gen.short(XF), ex.choices),
                      'replay': {'engine': 'mc-rel', 'scenario': scn,
                                 'scenario_short': gen.short(scn),
                                 'F': list(F), 'raise_out': raise_out}})
    if capF:
        return viols, True, False
    A = {}
    for b, w in behX.items():
        A.setdefault(rel.mask(b, F), w)
    B = {}
    for b, w in behF.items():
        B.setdefault(rel.mask(b, F), w)
    nontriv = False
    for b in B:
        rows = {r[0]: r for r in b}
        tF = [rows[j][3] for j in F if rows[j][3] is not None]
        if tF and any(r[1] is not None and r[1] >= min(tF)
                      for n, r in rows.items()
                      if n not in F and n != '<run>' and len(r) == 5):
            nontriv = True
            break
    if set(A) != set(B):
        onlyA = [b for b in A if b not in B]
        onlyB = [b for b in B if b not in A]
        if onlyB:
            side, beh, wit, other = 'raising', onlyB[0], B[onlyB[0]], A
        else:
            side, beh, wit, other = 'returning', onlyA[0], A[onlyA[0]], B
        viols.append({
            'key': 'c06:behaviour-differs',
            'msg': "switching %s from returning to raising changes the run: a "
                   "behaviour of the %s twin has no counterpart; closest "
                   "difference (returning twin vs raising twin rows: name, "
                   "start, exit, exit time, value) %s | scenario %s"
                   % (list(F), side,
                      rel.closest(beh, other) if side == 'returning'
                      else [(b_, a_) for a_, b_ in (rel.closest(beh, other)
                                                    or [])],
                      gen.short(scn)),
            'replay': {'engine': 'mc-rel', 'scenario': scn,
                       'scenario_short': gen.short(scn), 'F': list(F),
                       'raise_out': raise_out,
                       'witness_side': side, 'witness_choices': wit}})
    return viols, False, nontriv


def run_item(item):
    res = mc.new_result(None)
    res['groups'] = 0
    stats = X.Stats()
    maxF = item.get('maxF', 4)
    for scn in spaces.expand(item):
        cands = candidates(scn)
        if not cands:
            continue
        behX, capX, _ = rel.behaviours(scn, CAP, stats)
        res['scenarios'] += 1
        if capX:
            res['capped'] += 1
            continue
        for F in subsets(cands, maxF):
            viols, capped, nontriv = compare(scn, F, behX, stats,
                                             item.get('raise_out', 'raise'))
            res['scenarios'] += 1
            if capped:
                res['capped'] += 1
                continue
            res['groups'] += 1
            res['outcomes'] += len(behX)
            if nontriv:
                res['nontrivial'] += 1
                if not res['samples']:
                    res['samples'].append({
                        'X': gen.short(scn), 'F': list(F),
                        'behaviours': len(behX),
                        'one_behaviour': [list(map(str, r))
                                          for r in next(iter(behX))]})
            if viols and len(res['violations']) < 6:
                res['violations'].extend(viols[:2])
    res['execs'] = stats.execs
    res['states'] = stats.points
    res['trans'] = stats.trans
    res['replay_checked'] = stats.replay_checked
    res['max_tie'] = stats.max_tie
    res['exhausted_scenarios'] = res['scenarios'] - res['capped']
    return res


def replay(rep):
    stats = X.Stats()
    behX, capX, _ = rel.behaviours(rep['scenario'], CAP, stats)
    viols, capped, _ = compare(rep['scenario'], tuple(rep['F']), behX, stats,
                               rep.get('raise_out', 'raise'))
    return sorted(v['msg'] for v in viols)


def describe(rep):
    out = ["returning twin %s, F=%s" % (rep['scenario_short'], rep['F'])]
    if 'witness_choices' in rep:
        scn = rep['scenario']
        if rep['witness_side'] == 'raising':
            scn = gen.apply_mods(scn, [(j, 'out', rep.get('raise_out', 'raise'))
                                       for j in rep['F']])
        ex = scen.run_one(scn, rep['witness_choices'], drain=False)
        out.append("witness execution of the %s twin (no counterpart in the "
                   "other twin's behaviour set):" % rep['witness_side'])
        out.append(mc.View(ex).pretty())
    return '\n'.join(out)


JOB = {'critical': [True], 'forever': [True], 'dur': [0], 'k': ['coro'],
       'out': ['raise']}


def items(tier, seed):
    th = tier == 'thorough'
    durwin = {'parts': [('durs', {'values': [1, 2]}),
                        ('windows', {'values': [None, 1, 2],
                                     'allow_none': True})]}
    yield from spaces.mk(['flat123'], force='product', fargs=durwin,
                         job_open=JOB,
                         top_open={'timeout': [2, 3], 'k': ['nest']},
                         nest_open={}, extra=_base.X_THASH,
                         k=2 if th else 1)
    # every assignment of return / raise / critical raise to the jobs (ties
    # between a critical and a non-critical failure), F among the returning
    # non-critical ones
    yield from spaces.mk(['flat23'], force='product',
                         fargs={'parts': [('outcomes', {}),
                                          ('mods', {'alts': [
                                              [], [('top', 'k', 'nest'),
                                                   ('top', 'critical', True)]]}),
                                          ('windows', {'values': [None, 1],
                                                       'allow_none': True})]},
                         job_open={'dur': [2]}, top_open={},
                         nest_open={}, k=1 if th else 0, maxF=2)
    yield from spaces.mk(['nest22'], force='product',
                         fargs={'parts': [('outcomes', {'where': 'n'}),
                                          ('mods', {'alts': [
                                              [('n', 'critical', True)]]})]},
                         job_open={'dur': [2]}, top_open={},
                         nest_open={}, k=1 if th else 0, maxF=2)
    # verbose schedulers, exceptions whose message is empty
    yield from spaces.mk(['flat23', 'nest22'], force='mods',
                         fargs={'alts': [[('top', 'verbose', True)],
                                         [('top', 'verbose', True),
                                          ('top', 'watch', True)],
                                         [('top', 'verbose', True),
                                          ('n', 'verbose', True)]]},
                         job_open={'dur': [2]}, top_open={'window': [1]},
                         nest_open={}, k=1, maxF=2, raise_out='raise_empty')
    yield from spaces.mk(['flat4'], th, force='product',
                         fargs={'parts': [
                             ('mods', {'alts': [
                                 [], [('a', 'dur', 2)], [('b', 'dur', 2)],
                                 [('c', 'dur', 2), ('d', 'dur', 2)]]}),
                             ('windows', {'values': [None, 1, 2],
                                          'allow_none': True})]},
                         job_open={}, top_open={}, nest_open={}, k=0,
                         maxF=4 if th else 2)
    yield from spaces.mk(['nest32'], force='windows',
                         fargs={'values': [None, 1], 'allow_none': True},
                         job_open={'dur': [2]}, top_open={},
                         nest_open={'critical': [True]},
                         k=1 if th else 0, maxF=4 if th else 2)
    yield from spaces.mk(['deep3'], force='windows',
                         fargs={'values': [None, 1], 'allow_none': True},
                         job_open={'dur': [2]}, top_open={}, nest_open={},
                         k=1 if th else 0, maxF=3 if th else 2)
