"""C13 -- shutdown reaches every job exactly once, at its scheduler's end, in
bounded time"""
from . import _base
from .. import monitors, spaces

ID = 'C13'
RULE = _base.SPACE_TEXT + (
    "all three exit paths at every level, parent ending while the nested run "
    "is unfinished / never started / over; sd in {0,1,3} against "
    "shutdown_timeout in {0,1,2,None}. oracle: by the end of run() every "
    "atomic job has exactly one sd_begin, none after; sd_begin(j) never while"
    " a job of the same scheduler is inside its body and not after the end of"
    " the nearest enclosing run that ended; each broadcast lasts <= "
    "shutdown_timeout (flat: exactly min(max sd, shutdown_timeout)), pending "
    "handlers are cancelled at that instant, co_shutdown() returns True iff "
    "none was (ties: either); the explicit co_shutdown() of the drain phase "
    "sends nothing. non-trivial = a scheduler that did not end by returning "
    "normally or never started")
globals().update(_base.std(monitors.c13, drain=True))

from . import c11                                # noqa: E402


def items(tier, seed):
    # same space as C11, minus its re-run family: no property quantifies
    # over repeated runs of one tree, and C13's "exactly once" is per
    # scheduler object (`_did_shutdown`)
    return c11.items(tier, seed, rerun=False)
