"""C03 -- progress: an admissible run terminates, whatever raises, however
small the window; a scheduler with a timeout terminates whatever its jobs do.
"""
import itertools
import os

from .. import gen, mc

ID = 'C03'
ENGINE = 'mc'
RULE = ("every admissible scenario (DESIGN 3.5) of FLAT(<=4), NEST(3,2), DEEP3 "
        "x every subset of non-critical jobs raising x every window size, "
        "<=k further attribute deviations, every tie schedule within the "
        "deviation bound, run on the real run() under the controlled loop; "
        "oracle = the explorer's end states (deadlock: nothing ready and no "
        "timer armed; livelock: iteration horizon). non-trivial = the scenario "
        "has a window smaller than its number of jobs together with a raising "
        "job, or a timeout over a never-ending job; distinct = distinct "
        "(scenario, projected timed log). thorough adds the 7-job joins (two "
        "edges into one job) with one never-ending forever job, window 2/3 and "
        "<=2 of {raise, longer duration}")
ASSUMPTIONS = [
    "CPython 3.12.1 asyncio (Task, wait, Queue, gather) on a BaseEventLoop "
    "subclass with a virtual clock",
    "job bodies honour cancellation; durations in {0,1,2,never}",
    "bounds: <=4 jobs per scheduler, depth <=3, schedule deviation bound as "
    "reported",
]

JOB_OPEN = {'dur': [0, 2, 'never'], 'forever': [True], 'cdelay': [1],
            'critical': [True], 'k': ['coro']}
TOP_OPEN = {'timeout': [0, 1, 2, 3], 'k': ['nest']}
NEST_OPEN = {'timeout': [0, 1, 2], 'forever': [True], 'critical': [True]}


def atomic_names(scn):
    return [n['name'] for n, _ in gen.walk(scn['tree']) if not gen.is_sched(n)]


def sched_names(scn):
    return [n['name'] for n, _ in gen.walk(scn['tree']) if gen.is_sched(n)]


def forced(shape, windows_of):
    """shape x every fault subset x every window assignment"""
    jobs = atomic_names(shape)
    scheds = sched_names(shape)
    byname = gen.nodes_of(shape)
    wopts = [windows_of(byname[s]) for s in scheds]
    for r in range(len(jobs) + 1):
        for faults in itertools.combinations(jobs, r):
            for ws in itertools.product(*wopts):
                mods = [(j, 'out', 'raise') for j in faults]
                mods += [(s, 'window', w) for s, w in zip(scheds, ws)
                         if w is not None]
                yield gen.apply_mods(shape, mods)


def all_windows(node):
    return [None] + list(range(1, len(node['nodes']) + 1))


def small_windows(node):
    return [None, 1, 2][:1 + min(2, len(node['nodes']))]


def fam_flat(item):
    k = item['k']
    for base in forced(item['shape'], all_windows):
        menu = gen.open_menu(base, JOB_OPEN, NEST_OPEN, TOP_OPEN)
        for scn, _ in gen.variants(base, menu, k):
            yield scn


def fam_flat4(item):
    yield from forced(item['shape'], lambda n: [1, 2, 3])


def fam_nest(item):
    for base in forced(item['shape'], small_windows):
        if item['k']:
            menu = gen.open_menu(base, {'dur': [0, 2]}, NEST_OPEN,
                                 {'timeout': [2]})
            for scn, _ in gen.variants(base, menu, item['k']):
                yield scn
        else:
            yield base


def fam_deep(item):
    for base in forced(item['shape'], lambda n: [None, 1]):
        menu = gen.open_menu(base, JOB_OPEN, NEST_OPEN, TOP_OPEN)
        for scn, _ in gen.variants(base, menu, item['k']):
            yield scn


def fam_tflat(item):
    base = item['shape']
    menu = gen.open_menu(
        base, {'dur': ['never', 0, 3], 'forever': [True],
               'out': ['raise'], 'cdelay': [1]},
        {}, {'window': [1, 2], 'k': ['nest']})
    for scn, _ in gen.variants(base, menu, item['k']):
        yield scn


def fam_tnest(item):
    base = item['shape']
    menu = gen.open_menu(
        base, {'dur': ['never', 0, 3], 'forever': [True]},
        {'window': [1], 'forever': [True]}, {'window': [1]})
    for scn, _ in gen.variants(base, menu, item['k']):
        yield scn


def fam_flatfv(item):
    # one never-ending forever job, every fault subset, every window
    shape = item['shape']
    for j in atomic_names(shape):
        base0 = gen.apply_mods(shape, [(j, 'forever', True),
                                       (j, 'dur', 'never')])
        for base in forced(base0, all_windows):
            menu = gen.open_menu(base, {'dur': [0, 2]}, {}, {'k': ['nest']})
            for scn, _ in gen.variants(base, menu, item['k']):
                yield scn


def fam_flat5fv(item):
    # five jobs, one of them a never-ending forever job, window 2 or 3
    shape = item['shape']
    for j in atomic_names(shape):
        for w in (2, 3):
            base = gen.apply_mods(shape, [(j, 'forever', True),
                                          (j, 'dur', 'never'),
                                          ('top', 'window', w)])
            menu = gen.open_menu(base, {'dur': [2]}, {}, {})
            for scn, _ in gen.variants(base, menu, 1):
                yield scn


def fam_flat6fv(item):
    # six jobs, <=2 edges, one never-ending forever job, window 2
    shape = item['shape']
    for j in atomic_names(shape):
        base = gen.apply_mods(shape, [(j, 'forever', True),
                                      (j, 'dur', 'never'),
                                      ('top', 'window', 2)])
        menu = gen.open_menu(base, {'dur': [2], 'out': ['raise']}, {}, {})
        for scn, _ in gen.variants(base, menu, 1):
            yield scn


def fam_flat7fv(item):
    # seven jobs, one join (two edges into the same job), one never-ending
    # forever job, window 2 or 3, one raising job and one longer job
    shape = item['shape']
    for j in atomic_names(shape):
        for w in (2, 3):
            base = gen.apply_mods(shape, [(j, 'forever', True),
                                          (j, 'dur', 'never'),
                                          ('top', 'window', w)])
            menu = gen.open_menu(base, {'dur': [2], 'out': ['raise']}, {}, {})
            for scn, _ in gen.variants(base, menu, item['k']):
                yield scn


def fam_flat5(item):
    yield from forced(item['shape'], lambda n: [1, 2, 3])


def fam_sdnever(item):
    base = item['shape']
    menu = gen.open_menu(base, {'dur': [0, 2, 3], 'cdelay': [1]},
                         {'timeout': [1], 'forever': [True]},
                         {'sdt': [0, 2], 'window': [1]})
    for scn, _ in gen.variants(base, menu, item['k']):
        yield scn


FAMS = {'flat7fv': fam_flat7fv, 'sdnever': fam_sdnever, 'flat6fv': fam_flat6fv, 'flat5fv': fam_flat5fv, 'flatfv': fam_flatfv, 'flat5': fam_flat5, 'flat': fam_flat, 'flat4': fam_flat4, 'nest': fam_nest,
        'deep': fam_deep, 'tflat': fam_tflat, 'tnest': fam_tnest}


def expand(item):
    seen = set()
    for scn in FAMS[item['fam']](item):
        if not gen.admissible(scn):
            continue
        key = gen.short(scn)
        if key in seen:
            continue
        seen.add(key)
        yield scn


def items(tier, seed):
    thorough = tier == 'thorough'
    # A: flat, all labelled DAGs, every fault subset, every window size
    for n in (1, 2, 3):
        for shape in gen.flat_shapes(n):
            yield dict(fam='flat', shape=shape, k=2 if thorough else 1,
                       bound=3 if thorough else 2)
    for n in (2, 3):
        for shape in gen.flat_shapes(n):
            yield dict(fam='flatfv', shape=shape, k=1 if thorough else 0,
                       bound=2)
    if thorough:
        for shape in gen.flat_shapes(4):
            yield dict(fam='flatfv', shape=shape, k=0, bound=1)
    # B: flat 4 (quick: one representative per isomorphism class)
    if thorough:
        shapes4 = list(gen.flat_shapes(4))
    else:
        reps = set(gen.dags_unlabelled_reps(4))
        shapes4 = [s for s, e in zip(gen.flat_shapes(4), gen.dags(4))
                   if tuple(sorted(e)) in reps]
    for shape in shapes4:
        yield dict(fam='flat4', shape=shape, k=0, bound=2 if thorough else 1)
    # B': five jobs, few edges, every fault subset, windows 1..3
    for shape in gen.sparse_shapes(5, 3 if thorough else 2):
        yield dict(fam='flat5', shape=shape, k=0, bound=2)
        yield dict(fam='flat5fv', shape=shape, k=1, bound=1)
    for shape in gen.sparse_shapes(6, 2):
        yield dict(fam='flat6fv', shape=shape, k=1, bound=2 if thorough else 1)
    # seven jobs: the joins a<-b, a<-c over five unrelated jobs (the hang form
    # of a double start needs that many, seed C03-w3m1)
    if thorough or os.environ.get('VERIF_C03_FLAT7'):
        for shape in gen.sparse_shapes(7, 2):
            reqs = [len(n['req']) for n in shape['tree']['nodes']]
            if max(reqs) == 2:
                yield dict(fam='flat7fv', shape=shape, k=2, bound=2)
    # a nested scheduler whose shutdown phase is unbounded (shutdown_timeout
    # None, a handler that blocks until cancelled) under a timed parent
    for T in (1, 2, 3):
        for shape in gen.nest_shapes(2, 2):
            base = gen.apply_mods(shape, [('top', 'timeout', T),
                                          ('n', 'sdt', None),
                                          ('x', 'sd', 'never')])
            yield dict(fam='sdnever', shape=base, k=2 if thorough else 1,
                       bound=2)
    # C: nested
    for shape in gen.nest_shapes(3, 2):
        yield dict(fam='nest', shape=shape, k=1 if thorough else 0,
                   bound=2 if thorough else 1)
    # D: depth 3
    for shape in gen.deep3_shapes():
        yield dict(fam='deep', shape=shape, k=1 if thorough else 0, bound=2)
    # E: a timeout terminates anything
    for T in (0, 1, 2, 3):
        for n in (1, 2, 3):
            for shape in gen.flat_shapes(n):
                base = gen.apply_mods(shape, [('top', 'timeout', T)])
                yield dict(fam='tflat', shape=base, k=3 if thorough else 2,
                           bound=2)
        for shape in gen.nest_shapes(2, 2):
            for where in ('top', 'n'):
                base = gen.apply_mods(shape, [(where, 'timeout', T)])
                yield dict(fam='tnest', shape=base, k=2, bound=2)


def trigger_scn(scn):
    for node, _ in gen.walk(scn['tree']):
        if gen.is_sched(node):
            w = node.get('window')
            if w and w < len(node['nodes']) and any(
                    (not gen.is_sched(n)) and n['out'] == 'raise'
                    for n in node['nodes']):
                return True
            if node.get('timeout') is not None and any(
                    not gen.terminates(n) for n in node['nodes']):
                return True
    return False


def monitor(v):
    oc = v.ex.outcome[0]
    viols = []
    if oc in ('deadlock', 'horizon'):
        windowed_raise = any(
            v.spec[p].get('window') and v.evs('raise', c)
            for p, kids in v.children.items() for c in kids)
        key = '%s:%s' % (oc, 'windowed-raise' if windowed_raise else 'other')
        last = v.log[-1] if v.log else None
        viols.append((key, "run() does not terminate: %s at t=%s after %d "
                      "loop iterations (last event %s)"
                      % (oc, v.ex.log[-1][1] if v.log else 0, v.ex.niter,
                         last[3:5] if last else None)))
    return viols, trigger_scn(v.ex.scn)


def run_item(item):
    return mc.run_mc_item(item, monitor, drain=False, expand=expand)


def replay(rep):
    msgs, _ = mc.replay_mc(rep, monitor, drain=False)
    return msgs


def describe(rep):
    _, v = mc.replay_mc(rep, monitor, drain=False)
    return "scenario %s\n%s\noutcome %r" % (rep['scenario_short'], v.pretty(),
                                            v.ex.outcome)
