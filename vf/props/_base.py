"""boilerplate shared by the engine-A property modules"""
from .. import mc, spaces, gen

MC_ASSUMPTIONS = [
    "CPython 3.12.1 asyncio (Task, wait, Queue, gather run for real) on a "
    "BaseEventLoop subclass with a virtual clock; other loops/interpreters "
    "are not covered",
    "job bodies honour cancellation (possibly after cancel_delay), shutdown "
    "handlers do not raise; durations are small integers or 'never'",
    "bounds: all labelled DAGs on <=4 jobs per scheduler, sparse DAGs on 5-6 "
    "jobs, depth <=3, <=k open attribute values on top of the forced "
    "features, schedule deviation bound as reported (unbounded for scenarios "
    "counted in exhausted_scenarios)",
]

SPACE_TEXT = ("scenario space: shape families (all labelled DAGs on <=3-4 "
              "jobs, parent+nested scheduler, depth-3 chains) x forced "
              "features x every subset of <=k open attribute values; every tie "
              "schedule within the deviation bound; each execution is a run of "
              "the real code. distinct = distinct (scenario, projected timed "
              "log); ")


def std(monitor, snap=False, drain=False):
    def run_item(item):
        return mc.run_mc_item(item, monitor, snap=snap, drain=drain,
                              expand=spaces.expand)

    def replay(rep):
        msgs, _ = mc.replay_mc(rep, monitor, snap=snap, drain=drain)
        return msgs

    def describe(rep):
        _, v = mc.replay_mc(rep, monitor, snap=snap, drain=drain)
        return "scenario %s\nschedule %s\n%s\noutcome %r\ndiagnosis %r" % (
            rep['scenario_short'], [c[0] for c in rep['choices']], v.pretty(),
            v.ex.outcome, v.ex.post['scheds'])
    return dict(run_item=run_item, replay=replay, describe=describe,
                ENGINE='mc', ASSUMPTIONS=MC_ASSUMPTIONS)


M_JOB = {'out': ['raise'], 'critical': [True], 'forever': [True],
         'k': ['coro', 'print'], 'cdelay': [1]}
M_TOP = {'window': [1, 2], 'timeout': [1, 2, 3], 'k': ['nest'],
         'verbose': [True]}
M_NEST = {'window': [1], 'timeout': [1, 2], 'critical': [True],
          'forever': [True]}
X_THASH = [('', 'thash', 'desc')]


def general(tier, job_open=M_JOB, top_open=M_TOP, nest_open=M_NEST,
            extra=X_THASH, durs=(0, 1, 2)):
    th = tier == 'thorough'
    yield from spaces.mk(['flat123'], force='durs',
                         fargs={'values': list(durs)}, job_open=job_open,
                         top_open=top_open, nest_open=nest_open, extra=extra,
                         pre=True, k=2 if th else 1, bound=3 if th else 2)
    # every scheduler verbose, every assignment of outcomes including an
    # exception whose message is empty
    OUT4 = [[('out', 'ret')], [('out', 'raise')], [('out', 'raise_empty')],
            [('out', 'raise_empty'), ('critical', True)]]
    yield from spaces.mk(['flat23', 'nest22'], force='product',
                         fargs={'parts': [
                             ('mods', {'alts': [[('top', 'verbose', True),
                                                 ('n', 'verbose', True)]]}),
                             ('outcomes', {'values': OUT4})]},
                         job_open={'dur': [2]}, top_open={'window': [1]},
                         nest_open={'critical': [True]}, k=1 if th else 0,
                         bound=2)
    STAG = [[('a', 'dur', 1), ('b', 'dur', 2), ('c', 'dur', 3),
             ('x', 'dur', 1), ('y', 'dur', 2)],
            [('a', 'dur', 2), ('b', 'dur', 1), ('c', 'dur', 1),
             ('x', 'dur', 2), ('y', 'dur', 1)]]
    yield from spaces.mk(['nest32'], force='product',
                         fargs={'parts': [
                             ('mods', {'alts': [[('top', 'verbose', True),
                                                 ('n', 'verbose', True)]]}),
                             ('mods', {'alts': STAG})]},
                         job_open={'out': ['raise']}, top_open={},
                         nest_open={}, k=1 if th else 0, bound=2)
    # empty nested schedulers as jobs
    yield from spaces.mk(['nest20', 'nest30'], force='none',
                         job_open=dict(job_open, dur=[0, 2]),
                         top_open=top_open, nest_open=nest_open, extra=extra,
                         k=2 if th else 1, bound=2)
    yield from spaces.mk(['flat4'], th, force='durs',
                         fargs={'values': [1, 2]}, job_open={},
                         top_open={'window': [1, 2]}, nest_open={},
                         k=1, bound=2 if th else 1)
    jo = dict(job_open, dur=[0, 2])
    yield from spaces.mk(['nest32'], force='none', job_open=jo,
                         top_open=top_open, nest_open=nest_open, extra=extra,
                         pre=True, k=2 if th else 1, bound=2 if th else 1)
    yield from spaces.mk(['deep3'], force='none', job_open=jo,
                         top_open=top_open, nest_open=nest_open, extra=extra,
                         k=2 if th else 1, bound=2)
