"""C18 -- graph surgery keeps exactly the documented jobs and preserves
precedence"""
import collections

from .. import seq, gen
from ..seq import SJob, SSched, SPure

ID = 'C18'
ENGINE = 'seq'
ASSUMPTIONS = seq.SEQ_ASSUMPTIONS
RULE = ("every labelled DAG on <=4 nodes (thorough 5, bypass and keep_only "
        "only), every job as bypass_and_remove target, every subset R for "
        "keep_only, every (starts, ends) with |starts|,|ends| <= 2 and the 4 "
        "keep-flag combinations for keep_only_between; then explicit-state "
        "search over SEQUENCES of such operations (depth 2, thorough 3) from "
        "every DAG on <=3 (thorough 4) nodes with canonical-state dedup (documented state plus the identity "
        "partition of the real sets). "
        "oracle: bypass removes exactly j and the transitive must-run-before "
        "relation on the remaining jobs equals the original closure restricted"
        " to them; keep_only* keeps exactly the reference subset with "
        "required == original & kept, still acyclic and closed. non-trivial ="
        " operations that actually remove a job with both up- and downstream "
        "neighbours or drop edges; distinct = distinct (graph, operation) / "
        "search states")
NAMES = 'abcde'


def build(n, members, edges, pure=False):
    jobs = {NAMES[i]: SJob(NAMES[i], i) for i in range(n)}
    for a, b in edges:
        jobs[b].requires(jobs[a])
    sched = (SPure if pure else SSched)('top', 0, *[jobs[m] for m in members])
    return sched, jobs


def state_of(sched, jobs):
    members = frozenset(j.vname for j in sched.jobs)
    edges = frozenset((r.vname, j.vname) for j in jobs.values()
                      if j.vname in members for r in j.required)
    return members, edges


def ref_apply(members, edges, op):
    """reference semantics -> (members', predicate on edges', description)"""
    members = set(members)
    edges = {(a, b) for a, b in edges if a in members and b in members}
    kind = op[0]
    if kind == 'bypass':
        j = op[1]
        keep = members - {j}
        clo = {(a, b) for a, b in seq.closure(members, edges)
               if a in keep and b in keep}
        return keep, ('closure', clo)
    if kind == 'keep':
        keep = members & set(op[1])
        return keep, ('exact', {(a, b) for a, b in edges
                                if a in keep and b in keep})
    starts, ends, ks, ke = op[1], op[2], op[3], op[4]
    down = seq.reach_down(starts, edges, members) if starts else set(members)
    up = seq.reach_up(ends, edges, members) if ends else set(members)
    keep = down & up
    if ks:
        keep |= set(starts)
    if ke:
        keep |= set(ends)
    return keep, ('exact', {(a, b) for a, b in edges
                            if a in keep and b in keep})


def real_apply(sched, jobs, op):
    kind = op[0]
    with seq.captured():
        if kind == 'bypass':
            sched.bypass_and_remove(jobs[op[1]])
        elif kind == 'keep':
            sched.keep_only([jobs[x] for x in op[1]])
        else:
            sched.keep_only_between(starts=[jobs[x] for x in op[1]],
                                    ends=[jobs[x] for x in op[2]],
                                    keep_starts=op[3], keep_ends=op[4])


def step(n, members, edges, op, pure=False, sched=None, jobs=None):
    """apply op on real objects (fresh unless given) and on the reference;
    returns (messages, sched, jobs, new members, new edges)"""
    if sched is None:
        sched, jobs = build(n, members, edges, pure)
    msgs = []
    want_members, (mode, want) = ref_apply(members, edges, op)
    try:
        with seq.watchdog():
            real_apply(sched, jobs, op)
    except seq.Hang as exc:
        return (["%s does not terminate (%s)" % (fmt(op), exc)], sched, jobs,
                frozenset(members), frozenset(edges))
    except Exception as exc:
        return (["%s raises %r" % (fmt(op), exc)], sched, jobs,
                frozenset(members), frozenset(edges))
    got_members, got_edges = state_of(sched, jobs)
    if set(got_members) != want_members:
        msgs.append("%s keeps %s, expected %s"
                    % (fmt(op), sorted(got_members), sorted(want_members)))
    else:
        dangling = {(a, b) for a, b in got_edges if a not in got_members}
        if dangling:
            msgs.append("%s leaves requirements on dropped jobs: %s"
                        % (fmt(op), sorted(dangling)))
        inner = {(a, b) for a, b in got_edges if a in got_members}
        if mode == 'exact' and inner != want:
            msgs.append("%s leaves requirements %s among kept jobs, expected "
                        "%s" % (fmt(op), sorted(inner), sorted(want)))
        if mode == 'closure' and seq.closure(got_members, inner) != want:
            msgs.append("%s changes the must-run-before relation among the "
                        "remaining jobs: now %s, before %s (edges now %s)"
                        % (fmt(op), sorted(seq.closure(got_members, inner)),
                           sorted(want), sorted(inner)))
        if not seq.acyclic(got_members, inner):
            msgs.append("%s makes the scheduler cyclic" % fmt(op))
        # behavioural probe for requirement sets shared between jobs
        probe = SJob('probe', 9)
        for name in sorted(got_members):
            before = {n: set(jobs[n].required) for n in got_members}
            jobs[name].requires(probe)
            hit = [n for n in sorted(got_members)
                   if n != name and set(jobs[n].required) != before[n]]
            jobs[name].requires(probe, remove=True)
            if hit:
                msgs.append("after %s, adding a requirement to %s also "
                            "changes the requirements of %s"
                            % (fmt(op), name, hit))
                break
        try:
            ok = sched.check_cycles()
        except Exception as exc:
            ok = exc
        if ok is not True and seq.acyclic(got_members, inner):
            msgs.append("check_cycles() is %r after %s" % (ok, fmt(op)))
    return msgs, sched, jobs, got_members, got_edges


def fmt(op):
    if op[0] == 'bypass':
        return "bypass_and_remove(%s)" % op[1]
    if op[0] == 'keep':
        return "keep_only(%s)" % list(op[1])
    return "keep_only_between(starts=%s, ends=%s, keep_starts=%s, " \
        "keep_ends=%s)" % (list(op[1]), list(op[2]), op[3], op[4])


def all_ops(members, between=True, maxse=2, pool=None):
    members = sorted(members)
    for j in members:
        yield ('bypass', j)
    # keep_only() may be given jobs that are not, or no longer, members:
    # they are to be ignored
    for r in seq.subsets(sorted(pool) if pool else members):
        yield ('keep', r)
    if between:
        for s in seq.subsets(members, 0, maxse):
            for e in seq.subsets(members, 0, maxse):
                for ks in (True, False):
                    for ke in (True, False):
                        yield ('between', s, e, ks, ke)


def one_dag(n, edges, pure, res, between=True):
    members = [NAMES[i] for i in range(n)]
    named = {(NAMES[i], NAMES[j]) for i, j in edges}
    for op in all_ops(members, between):
        if res.get('abort'):
            break
        msgs, *_ = step(n, members, named, op, pure)
        res['trans'] += 1
        res['validated'] += 1
        res['execs'] += 1
        if op[0] == 'bypass' and seq.ups(op[1], named, set(members)) \
                and seq.downs(op[1], named, set(members)):
            res['nontrivial'] += 1
        elif op[0] != 'bypass' and named:
            res['nontrivial'] += 1
        for m in msgs[:1]:
            seq.add_violation(
                res, 'c18:' + op[0] + ':' + m.split(' ')[1 if m[0] != 'c'
                                                         else 0],
                "%s | DAG on %d nodes, edges (a,b: b requires a) %s, %s"
                % (m, n, sorted(named),
                   'PureScheduler' if pure else 'Scheduler'),
                {'kind': 'single', 'n': n, 'edges': sorted(named),
                 'members': members, 'pure': pure, 'ops': [op]})
    res['states'] += 1


def seq_search(n, edges, depth, res):
    """all operation sequences up to `depth` from this DAG, deduplicated on
    the canonical (members, edges) state; objects rebuilt by replay"""
    members0 = frozenset(NAMES[i] for i in range(n))
    edges0 = frozenset((NAMES[i], NAMES[j]) for i, j in edges)

    def run(hist):
        sched, jobs = build(n, members0, edges0)
        members, ed = members0, edges0
        msgs = []
        for op in hist:
            msgs, sched, jobs, members, ed = step(n, members, ed, op,
                                                  sched=sched, jobs=jobs)
            if msgs:
                break
        # identity partition of the real sets: histories that reach the same
        # documented state while two objects share one set do not have the
        # same futures, so they must not be merged (cf. C19-w6m2)
        conts = [jobs[k].required for k in sorted(jobs)] + [sched.jobs]
        first = {}
        alias = tuple(first.setdefault(id(c), i) for i, c in enumerate(conts))
        return msgs, members, (ed, alias)
    seen = {(members0, run([])[2])}
    frontier = collections.deque([[]])
    while frontier and not res.get('abort'):
        hist = frontier.popleft()
        _, members, (ed, _) = run(hist)
        if len(hist) >= depth:
            continue
        for op in all_ops(members, between=True, maxse=1, pool=members0):
            h2 = hist + [op]
            msgs, m2, e2 = run(h2)
            res['trans'] += 1
            res['validated'] += 1
            res['execs'] += 1
            if len(h2) > 1:
                res['nontrivial'] += 1
            for m in msgs[:1]:
                seq.add_violation(
                    res, 'c18:seq:' + op[0],
                    "%s | after %s from DAG %s" % (m, [fmt(o) for o in hist],
                                                   sorted(edges0)),
                    {'kind': 'seq', 'n': n, 'edges': sorted(edges0),
                     'members': sorted(members0), 'pure': False, 'ops': h2})
            k = (m2, e2)
            if not msgs and k not in seen:
                seen.add(k)
                frontier.append(h2)
    res['states'] += len(seen)


def run_item(item):
    res = seq.new_result()
    dags = gen.dags(item['n'])
    lo, hi = item['range']
    for edges in dags[lo:hi]:
        if item['kind'] == 'single':
            one_dag(item['n'], edges, item['pure'], res,
                    between=item['n'] <= 4)
        else:
            seq_search(item['n'], edges, item['depth'], res)
    res['scenarios'] = hi - lo
    res['outcomes'] = hi - lo
    if lo == 0 and item['n'] == 3 and item['kind'] == 'seq':
        res['samples'].append({
            'dag': [list(e) for e in dags[min(17, hi - 1)]],
            'ops_example': [fmt(('bypass', 'b')),
                            fmt(('between', ('a',), ('c',), True, False))]})
    return res


def items(tier, seed):
    th = tier == 'thorough'
    totals = {1: 1, 2: 3, 3: 25, 4: 543, 5: 29281}
    for n in (1, 2, 3, 4) + ((5,) if th else ()):
        step = 10 if n == 4 else (200 if n == 5 else 25)
        for pure in (False, True):
            if n == 5 and pure:
                continue
            for lo in range(0, totals[n], step):
                yield {'kind': 'single', 'n': n, 'pure': pure,
                       'range': (lo, min(totals[n], lo + step))}
    for n in (2, 3) + ((4,) if th else ()):
        step = 1 if n >= 3 else 3
        for lo in range(0, totals[n], step):
            yield {'kind': 'seq', 'n': n, 'depth': 3 if (th and n <= 3) else 2,
                   'range': (lo, min(totals[n], lo + step))}


def replay(rep):
    n = rep['n']
    members = frozenset(rep['members'])
    edges = frozenset(tuple(e) for e in rep['edges'])
    sched, jobs = build(n, members, edges, rep.get('pure', False))
    msgs = []
    for op in rep['ops']:
        op = tuple(tuple(x) if isinstance(x, list) else x for x in op)
        msgs, sched, jobs, members, edges = step(n, members, edges, op,
                                                 sched=sched, jobs=jobs)
        if msgs:
            break
    return sorted(msgs)


def describe(rep):
    return "DAG edges %s, operations %s" % (rep['edges'], rep['ops'])
