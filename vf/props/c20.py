"""C20 -- DOT export and listing describe the scheduler tree faithfully"""
import re
import copy
import itertools
import subprocess
import collections

from .. import seq, gen, dotparse
from ..seq import SJob, SSched, SPure

ID = 'C20'
ENGINE = 'seq'
ASSUMPTIONS = seq.SEQ_ASSUMPTIONS + [
    "the DOT-subset parser vf/dotparse.py (written for this purpose) and, as "
    "a second syntax judge on every distinct output, /usr/bin/dot -Tcanon",
    "labels contain no backslash (the property excludes them)"]
RULE = ("tree skeletons up to depth 3 (incl. empty nested schedulers with and "
        "without requirements) x all labelled DAGs on the <=3 nodes of each "
        "level x top PureScheduler/Scheduler; flags: every single node "
        "critical / forever / both, and all nodes at once; labels: each of "
        "{plain, double quote, newline, ->, {};[]=, , non-ASCII, leading/"
        "trailing space, empty} on each node in turn (thorough: on two nodes)."
        " oracle: independent DOT parser -- one node per atomic job, unique "
        "ids, node inside the cluster chain of its schedulers, one cluster per"
        " nested scheduler nested alike, multiset of edges (ltail/lhead "
        "resolved to clusters, endpoints inside the named clusters) == "
        "multiset of requirements, label == '<id>: <label>', critical <=> "
        "color=red,penwidth=2 else 0.5, forever <=> dashed, atomic <=> "
        "rounded; dot -Tcanon accepts the output; list() shows every job once,"
        " ids increasing and after those of its requirements. non-trivial = "
        "trees with a nested scheduler or >=2 edges; distinct = distinct trees")

LABELS = ['plain', 'qu"ote', 'new\nline', 'a->b', '{};[]=,', 'é✓', ' pad ',
          '', '"', 'x"y"z']


def J(name, **kw):
    return dict(name=name, kids=None, req=[], critical=False, forever=False,
                label=name, **kw)


def N(name, kids, **kw):
    return dict(name=name, kids=kids, req=[], critical=False, forever=False,
                label=name, **kw)


SKELETONS = {
    'K1': [J('a'), J('b'), J('c')],
    'K2': [J('a'), N('n', [J('x'), J('y')]), J('b')],
    'K3': [J('a'), N('n', [J('x'), N('m', [J('p')])])],
    'K4': [N('n', [J('x')]), N('k', [J('u')]), J('a')],
    'K5': [J('a'), N('e', [])],
    'K6': [N('e', []), N('n', [J('x')])],
    'K7': [N('n', [N('e', []), J('x')]), J('a')],
    'K8': [N('n', [J('x'), J('y'), J('z')])],
    'K9': [J('a')],
    'K0': [],
}


def levels(nodes):
    """all lists of sibling nodes in the tree"""
    yield nodes
    for n in nodes:
        if n['kids'] is not None:
            yield from levels(n['kids'])


def all_nodes(nodes):
    for n in nodes:
        yield n
        if n['kids'] is not None:
            yield from all_nodes(n['kids'])


def shapes(skel):
    """every combination of labelled DAGs on each level"""
    base = SKELETONS[skel]
    lv = list(levels(base))
    choices = [gen.dags(len(l)) if l else [()] for l in lv]
    for combo in itertools.product(*choices):
        tree = copy.deepcopy(base)
        for level, edges in zip(levels(tree), combo):
            for i, j in edges:
                level[j]['req'].append(level[i]['name'])
        yield tree


def build(tree, toppure):
    objs = {}
    counter = [1]

    def mk(spec):
        h = counter[0]
        counter[0] += 1
        if spec['kids'] is None:
            o = SJob(spec['name'], h, critical=spec['critical'],
                     forever=spec['forever'])
        else:
            kids = [mk(k) for k in spec['kids']]
            o = SSched(spec['name'], h, *kids, critical=spec['critical'],
                       forever=spec['forever'])
            wire(spec['kids'], kids)
        o.label = spec['label']
        objs[spec['name']] = o
        return o

    def wire(specs, kids):
        by = {s['name']: k for s, k in zip(specs, kids)}
        for s in specs:
            for r in s['req']:
                by[s['name']].requires(by[r])
    kids = [mk(k) for k in tree]
    wire(tree, kids)
    top = (SPure if toppure else SSched)('top', 0, *kids)
    return top, objs


def empty_sched_on_edge(tree):
    """does a requirement edge have an empty nested scheduler (or a nested
    scheduler whose entry/exit resolution ends in an empty one) as endpoint?"""
    def hollow(n):
        # no atomic job can stand for this scheduler
        return n['kids'] is not None and all(hollow(k) for k in n['kids']) \
            if n['kids'] is not None else False
    for level in levels(tree):
        by = {n['name']: n for n in level}
        for n in level:
            for r in n['req']:
                if hollow(n) or hollow(by[r]):
                    return True
    return False


# rendered (and discarded) before every case, so that state leaking from one
# dot_format() call to the next shows up inside one self-contained, replayable
# case instead of depending on which trees a worker happened to see before
PROVOKE = [dict(J('pa'), forever=True, critical=True),
           dict(N('pn', [dict(J('px'), forever=True)]), forever=True,
                critical=True, req=['pa']),
           dict(J('pb'), req=['pn', 'pa'])]


def edits_of(tree):
    """single edits that keep the tree closed: drop one requirement edge, or
    remove one atomic job that nothing requires; -> (edit, tree before)"""
    for level in levels(tree):
        for n in level:
            for r in n['req']:
                yield ('rm_edge', r, n['name'])
        required = {r for n in level for r in n['req']}
        for n in level:
            if n['kids'] is None and n['name'] not in required:
                yield ('rm_job', n['name'])


def apply_edit_spec(tree, edit):
    t = copy.deepcopy(tree)
    for level in levels(t):
        if edit[0] == 'rm_edge':
            for n in level:
                if n['name'] == edit[2] and edit[1] in n['req']:
                    n['req'].remove(edit[1])
        else:
            for n in list(level):
                if n['name'] == edit[1]:
                    level.remove(n)
    return t


def apply_edit_real(top, objs, tree, edit):
    if edit[0] == 'rm_edge':
        objs[edit[2]].requires(objs[edit[1]], remove=True)
        return
    # find the scheduler holding the job
    def holder(nodes, sched):
        for n in nodes:
            if n['name'] == edit[1]:
                return sched
            if n['kids'] is not None:
                h = holder(n['kids'], objs[n['name']])
                if h is not None:
                    return h
        return None
    holder(tree, top).remove(objs[edit[1]])


def check_dot(tree, toppure, edit=None):
    """with `edit`: `tree` is the tree BEFORE the edit; it is built and
    rendered, the edit is applied to the live objects, and the second
    rendering is judged against the edited tree"""
    msgs = []
    try:
        build(copy.deepcopy(PROVOKE), toppure)[0].dot_format()
    except Exception:
        pass
    top, objs = build(tree, toppure)
    if edit is not None:
        try:
            top.dot_format()
            with seq.captured():
                top.list()
        except Exception:
            pass
        apply_edit_real(top, objs, tree, edit)
        tree = apply_edit_spec(tree, edit)
    try:
        text = top.dot_format()
    except Exception as exc:
        key = 'raises'
        if isinstance(exc, ValueError) and 'found' in str(exc) \
                and empty_sched_on_edge(tree):
            key = 'raises:empty-nested-on-edge'
        return [(key, "dot_format() raises %r" % (exc,))], None
    try:
        g = dotparse.parse(text)
    except dotparse.DotError as exc:
        return [('syntax', "dot_format() is not valid DOT: %s" % exc)], text
    specs = {n['name']: n for n in all_nodes(tree)}
    parent = {}

    def setp(nodes, p):
        for n in nodes:
            parent[n['name']] = p
            if n['kids'] is not None:
                setp(n['kids'], n['name'])
    setp(tree, None)
    atoms = {n for n, s in specs.items() if s['kids'] is None}
    nests = {n for n, s in specs.items() if s['kids'] is not None}
    bylabel = {s['label']: n for n, s in specs.items()}

    def owner(ident, label):
        if label is None or not label.startswith(ident + ': '):
            return None
        return bylabel.get(label[len(ident) + 2:])

    # clusters
    cluster_of = {}          # cluster name -> scheduler name
    for sub in g.walk():
        if sub.parent is None:
            continue
        if not sub.name.startswith('cluster_'):
            msgs.append(('cluster', "subgraph %s is not a cluster" % sub.name))
            continue
        who = owner(sub.name[len('cluster_'):], sub.attrs.get('label'))
        if who is None or who not in nests:
            msgs.append(('cluster-label',
                         "cluster %s has label %r which is not '<id>: <label>'"
                         " of a nested scheduler" % (sub.name,
                                                     sub.attrs.get('label'))))
            continue
        if sub.name in cluster_of or who in cluster_of.values():
            msgs.append(('cluster-twice', "nested scheduler %s / cluster %s "
                         "appears twice" % (who, sub.name)))
        cluster_of[sub.name] = who
        chain = [cluster_of.get(c) for c in sub.chain()[:-1]]
        want = []
        p = parent[who]
        while p is not None:
            want.append(p)
            p = parent[p]
        if chain != list(reversed(want)):
            msgs.append(('cluster-nesting', "cluster of %s is nested in %s, "
                         "the scheduler is nested in %s"
                         % (who, chain, list(reversed(want)))))
        check_flags(msgs, who, specs[who], sub.attrs, atomic=False)
    if set(cluster_of.values()) != nests:
        msgs.append(('clusters', "clusters describe %s, nested schedulers are"
                     " %s" % (sorted(cluster_of.values()), sorted(nests))))
    # nodes
    node_job = {}
    where = {}
    for sub in g.walk():
        for ident, attrs in sub.nodes:
            who = owner(ident, attrs.get('label'))
            if who is None or who not in atoms:
                msgs.append(('node-label', "node %s has label %r which is not "
                             "'<id>: <label>' of an atomic job"
                             % (ident, attrs.get('label'))))
                continue
            if ident in node_job:
                msgs.append(('id-twice', "id %s used for %s and %s"
                             % (ident, node_job[ident], who)))
            if who in node_job.values():
                msgs.append(('node-twice', "%s has two nodes" % who))
            node_job[ident] = who
            where[ident] = [cluster_of.get(c) for c in sub.chain()]
            want = []
            p = parent[who]
            while p is not None:
                want.append(p)
                p = parent[p]
            if where[ident] != list(reversed(want)):
                msgs.append(('node-place', "node of %s lies in clusters %s, "
                             "the job is nested in %s"
                             % (who, where[ident], list(reversed(want)))))
            check_flags(msgs, who, specs[who], attrs, atomic=True)
    if set(node_job.values()) != atoms:
        msgs.append(('nodes', "nodes describe %s, atomic jobs are %s"
                     % (sorted(node_job.values()), sorted(atoms))))
    if set(node_job) & {c[len('cluster_'):] for c in cluster_of}:
        msgs.append(('id-twice', "a node and a cluster share an id"))
    # edges
    got = collections.Counter()
    for sub in g.walk():
        for a, b, attrs in sub.edges:
            ends = []
            for ident, key in ((a, 'ltail'), (b, 'lhead')):
                if ident not in node_job:
                    msgs.append(('edge-endpoint', "edge %s -> %s: %s is not a "
                                 "declared node" % (a, b, ident)))
                    ends.append(None)
                    continue
                if key in attrs:
                    cl = attrs[key]
                    who = cluster_of.get(cl)
                    if who is None:
                        msgs.append(('edge-cluster', "edge %s -> %s names "
                                     "unknown cluster %s" % (a, b, cl)))
                    elif who not in where[ident]:
                        msgs.append(('edge-cluster', "edge %s -> %s: %s=%s but"
                                     " node %s is not inside that cluster"
                                     % (a, b, key, cl, ident)))
                    ends.append(who)
                else:
                    ends.append(node_job[ident])
            if None not in ends:
                got[tuple(ends)] += 1
    want = collections.Counter((r, n) for n, s in specs.items()
                               for r in s['req'])
    if got != want:
        msgs.append(('edges', "edges (requirement -> job) are %s, the "
                     "requirements are %s" % (sorted(got.elements()),
                                              sorted(want.elements()))))
    return msgs, text


def check_flags(msgs, who, spec, attrs, atomic):
    style = [s for s in attrs.get('style', '').split(',') if s]
    if ('rounded' in style) != atomic:
        msgs.append(('style-rounded', "%s: style %r, atomic=%s"
                     % (who, attrs.get('style'), atomic)))
    if ('dashed' in style) != bool(spec['forever']):
        msgs.append(('style-dashed', "%s: style %r but forever=%s"
                     % (who, attrs.get('style'), spec['forever'])))
    if spec['critical']:
        if attrs.get('color') != 'red' or attrs.get('penwidth') != '2':
            msgs.append(('style-critical', "%s is critical but color=%r "
                         "penwidth=%r" % (who, attrs.get('color'),
                                          attrs.get('penwidth'))))
    elif attrs.get('color') == 'red' or attrs.get('penwidth') != '0.5':
        msgs.append(('style-critical', "%s is not critical but color=%r "
                     "penwidth=%r" % (who, attrs.get('color'),
                                      attrs.get('penwidth'))))


LINE = re.compile(r'^(\S+)\s.*?<\w+ `([^`]*)`>')


def check_list(tree, toppure):
    msgs = []
    top, objs = build(tree, toppure)
    try:
        with seq.captured() as buf:
            top.list()
    except Exception as exc:
        return [('list-raises', "list() raises %r" % (exc,))]
    specs = {n['name']: n for n in all_nodes(tree)}
    ids = {}
    order = []
    stack = []
    inside = collections.defaultdict(set)
    for l in buf.getvalue().splitlines():
        if not l.strip():
            continue
        toks = l.split()
        if len(toks) > 1 and toks[1] == '--end--':
            m = re.search(r'<\w+ `([^`]*)`>', l)
            if not stack or m is None or stack[-1] != m.group(1):
                msgs.append(('list-end', "list(): unbalanced line %r" % l))
            else:
                stack.pop()
            continue
        m = LINE.match(l)
        if not m:
            msgs.append(('list-parse', "list(): cannot parse %r" % l))
            continue
        sid, label = m.groups()
        if label in ids:
            msgs.append(('list-twice', "list() shows %s twice" % label))
        try:
            ids[label] = int(sid)
        except ValueError:
            msgs.append(('list-id', "list(): id %r of %s" % (sid, label)))
            continue
        order.append(label)
        for s in stack:
            inside[s].add(label)
        if label in specs and specs[label]['kids'] is not None:
            stack.append(label)
    nums = [ids[l] for l in order]
    if nums != list(range(1, len(nums) + 1)):
        msgs.append(('list-order', "list() numbers %s in printing order"
                     % nums))
    if set(ids) != set(specs):
        msgs.append(('list-jobs', "list() shows %s, the tree holds %s"
                     % (sorted(ids), sorted(specs))))
    for n, s in specs.items():
        for r in s['req']:
            if n in ids and r in ids and ids[r] >= ids[n]:
                msgs.append(('list-topo', "list() numbers %s (%d) after %s "
                             "(%d) which requires it" % (r, ids[r], n, ids[n])))
        if s['kids'] is not None:
            want = {k['name'] for k in all_nodes(s['kids'])}
            if inside[n] != want:
                msgs.append(('list-nesting', "list() shows %s inside %s, "
                             "expected %s" % (sorted(inside[n]), n,
                                              sorted(want))))
    return msgs


_dot_seen = set()


def dot_binary(text):
    if text in _dot_seen:
        return None
    _dot_seen.add(text)
    try:
        p = subprocess.run(['/usr/bin/dot', '-Tcanon'], input=text.encode(),
                           capture_output=True, timeout=30)
    except (OSError, subprocess.TimeoutExpired) as exc:
        return None
    err = p.stderr.decode(errors='replace')
    if p.returncode != 0 or 'syntax error' in err:
        return "dot -Tcanon rejects the output (exit %d): %s" % (
            p.returncode, err.strip()[:300])
    return None


def variants(tree, mode, th):
    """flag and label variants of one shape"""
    names = [n['name'] for n in all_nodes(tree)]
    if mode == 'flags':
        yield tree
        for n in names:
            for crit, fv in ((True, False), (False, True), (True, True)):
                t = copy.deepcopy(tree)
                for x in all_nodes(t):
                    if x['name'] == n:
                        x['critical'], x['forever'] = crit, fv
                yield t
        t = copy.deepcopy(tree)
        for x in all_nodes(t):
            x['critical'] = x['forever'] = True
        yield t
    else:
        for n in names:
            for lab in LABELS[1:]:
                t = copy.deepcopy(tree)
                for x in all_nodes(t):
                    if x['name'] == n:
                        x['label'] = lab
                yield t
        if th:
            for n1, n2 in itertools.combinations(names, 2):
                for l1, l2 in itertools.permutations(LABELS[1:7], 2):
                    t = copy.deepcopy(tree)
                    for x in all_nodes(t):
                        if x['name'] == n1:
                            x['label'] = l1
                        if x['name'] == n2:
                            x['label'] = l2
                    yield t


def short(tree):
    def r(n):
        f = ('!' if n['critical'] else '') + ('8' if n['forever'] else '')
        lab = '' if n['label'] == n['name'] else '=%r' % n['label']
        req = ('<' + ','.join(n['req'])) if n['req'] else ''
        if n['kids'] is None:
            return n['name'] + f + lab + req
        return '%s%s%s%s{%s}' % (n['name'], f, lab, req,
                                 ' '.join(r(k) for k in n['kids']))
    return ' '.join(r(n) for n in tree)


def _one(tree, toppure, res, use_dot, do_list, edit=None):
    msgs, text = check_dot(tree, toppure, edit)
    if edit is not None:
        do_list = False
    if text is not None and use_dot and not msgs:
        m = dot_binary(text)
        if m:
            msgs.append(('dot-binary', m))
    if do_list and not any(k.startswith('raises') for k, _ in msgs):
        msgs += check_list(tree, toppure)
    res['execs'] += 1
    res['trans'] += 1
    res['validated'] += 1
    nn = list(all_nodes(tree))
    if any(n['kids'] is not None for n in nn) or \
            sum(len(n['req']) for n in nn) >= 2:
        res['nontrivial'] += 1
    for key, m in msgs[:2]:
        seq.add_violation(res, 'c20:' + key, "%s | tree top(%s){%s}" % (
            m, 'PureScheduler' if toppure else 'Scheduler', short(tree))
            + ('' if edit is None else ' rendered, then %s, then rendered '
               'again' % (list(edit),)),
            {'tree': tree, 'toppure': toppure, 'edit': edit}, cap=10)


def one(tree, toppure, res, use_dot, do_list, edit=None):
    _, hang = seq.guarded(_one, tree, toppure, res, use_dot, do_list, edit)
    if hang:
        seq.add_violation(res, 'c20:hang', "%s | tree %s" % (hang, short(tree)),
                          {'tree': tree, 'toppure': toppure, 'edit': edit})


def big_trees():
    """trees around the 9/10-node boundary where ids become two digits wide"""
    for extra in range(0, 5):
        flat = [J(c) for c in 'abcdefg'[:3 + extra]]
        for i in range(1, len(flat)):
            flat[i]['req'].append(flat[i - 1]['name'])
        inner = N('n', [J('x'), J('y')])
        inner['kids'][1]['req'].append('x')
        inner['req'].append(flat[0]['name'])
        deep = N('m', [J('p'), N('k', [J('u')])])
        deep['req'].append('n')
        last = J('z')
        last['req'] += ['n', 'm', flat[-1]['name']]
        yield flat + [inner, deep, last]


def run_item(item):
    res = seq.new_result()
    if item.get('kind') == 'big':
        for tree in big_trees():
            for toppure in (False, True):
                one(tree, toppure, res, use_dot=True, do_list=True)
                for edit in edits_of(tree):
                    one(tree, toppure, res, use_dot=False, do_list=False,
                        edit=edit)
            res['states'] += 1
        res['scenarios'] = 5
        return res
    th = item['thorough']
    allshapes = list(shapes(item['skel']))
    lo, hi = item['range']
    for tree in allshapes[lo:hi]:
        for mode in item['modes']:
            for t in variants(tree, mode, th):
                if res.get('abort'):
                    break
                one(t, item['toppure'], res, use_dot=True,
                    do_list=(mode == 'flags'))
        if 'flags' in item['modes']:
            for edit in edits_of(tree):
                one(tree, item['toppure'], res, use_dot=False, do_list=False,
                    edit=edit)
        res['states'] += 1
    res['scenarios'] = hi - lo
    res['outcomes'] = len(_dot_seen)
    if lo == 0 and item['skel'] == 'K2' and not item['toppure']:
        tree = allshapes[min(40, hi - 1)]
        top, _ = build(tree, False)
        res['samples'].append({'tree': short(tree),
                               'dot_format': top.dot_format()})
    return res


def items(tier, seed):
    th = tier == 'thorough'
    yield {'kind': 'big'}
    for skel in SKELETONS:
        total = len(list(shapes(skel)))
        step = 8
        for toppure in (False, True):
            for lo in range(0, total, step):
                # labels only on a subset of the DAG combinations in quick
                modes = ['flags']
                if th or (lo // step) % 3 == 0:
                    modes.append('labels')
                yield {'skel': skel, 'toppure': toppure, 'thorough': th,
                       'modes': modes, 'range': (lo, min(total, lo + step))}


def replay(rep):
    res = seq.new_result()
    _dot_seen.clear()
    edit = rep.get('edit')
    one(rep['tree'], rep['toppure'], res, use_dot=True, do_list=True,
        edit=tuple(edit) if edit else None)
    return sorted(v['msg'] for v in res['violations'])


def describe(rep):
    top, _ = build(rep['tree'], rep['toppure'])
    try:
        text = top.dot_format()
    except Exception as exc:
        text = "dot_format() raises %r" % (exc,)
    return "tree top{%s}\n%s" % (short(rep['tree']), text)


def matches_known(v, entry):
    return v.get('key') == entry.get('key')
