"""C15 -- cycle detection is exact; topological order is a valid linear
extension"""
import re
import collections

from .. import seq
from ..seq import SJob, SSched, SPure

ID = 'C15'
ENGINE = 'seq'
ASSUMPTIONS = seq.SEQ_ASSUMPTIONS
RULE = ("every digraph on <=4 nodes (thorough: 5) without self-loops and "
        "every digraph on <=3 nodes with self-loops, placed at the top of a "
        "PureScheduler, of a Scheduler, and at depth 1 and 2 of an otherwise "
        "acyclic tree (top Pure or nestable) in which jobs precede and follow "
        "each nested scheduler; plus explicit-state search over "
        "edit histories (every edge toggled through requires()/requires("
        "remove=True) from every reachable state on 3 nodes, thorough 4). "
        "oracle: check_cycles() == reference acyclicity of the graphs the "
        "statement names; acyclic: topological_order() is a permutation with "
        "every job after its requirements and list() prints every job once "
        "with increasing ids respecting requirements and nesting; cyclic: "
        "topological_order() raises after a valid, bounded prefix. "
        "non-trivial = cyclic graphs and graphs with >=2 edges; distinct = "
        "distinct (placement, graph) / distinct search states")

NAMES = 'abcde'
LINE = re.compile(r'^(\S+)\s.*?<\w+ `([^`]*)`>')


def build(place, toppure, n, edges, hollow=None, verbose=False):
    jobs = [SJob(NAMES[i], i) if i != hollow else SSched(NAMES[i], i)
            for i in range(n)]
    if verbose:
        top, holder, jobs, chain = build(place, toppure, n, edges, hollow)
        for s_ in [top] + chain:
            s_.verbose = True
        return top, holder, jobs, chain
    for i, j in edges:
        if i == j:
            jobs[j].required.add(jobs[i])
        else:
            jobs[j].requires(jobs[i])
    Top = SPure if toppure else SSched
    if place == 'top':
        top = Top('top', 0, *jobs)
        return top, top, jobs, []
    o1 = SJob('o1', 6)
    if place == 'd1':
        hold = SSched('N', 7, *jobs, required=o1)
        # t0 comes after the nested scheduler: its number in list() depends
        # on the numbering of everything inside N (C15-w6m1)
        t0 = SJob('t0', 8, required=hold)
        top = Top('top', 0, o1, hold, t0)
        return top, hold, jobs, [hold]
    o2 = SJob('o2', 5)
    hold = SSched('M', 6, *jobs, required=o2)
    t1 = SJob('t1', 9, required=hold)
    mid = SSched('N', 7, o2, hold, t1, required=o1)
    t0 = SJob('t0', 8, required=mid)
    top = Top('top', 0, o1, mid, t0)
    return top, hold, jobs, [mid, hold]


def check_topo(holder, names_edges, res, rep, what):
    """holder's own graph: names_edges over vname; returns messages"""
    msgs = []
    members = {j.vname for j in holder.jobs}
    edges = {(a, b) for a, b in names_edges if a in members and b in members}
    ok = seq.acyclic(members, edges)
    out = []
    raised = None
    gen = holder.topological_order()
    try:
        for k, job in enumerate(gen):
            out.append(job.vname)
            if k > 4 * len(members) + 4:
                msgs.append("topological_order() of %s does not stop" % what)
                break
    except Exception as exc:
        raised = exc
    seen = set()
    for name in out:
        if name in seen:
            msgs.append("topological_order() of %s yields %s twice: %s"
                        % (what, name, out))
        need = {a for a, b in edges if b == name}
        if not need <= seen:
            msgs.append("topological_order() of %s yields %s before its "
                        "requirements %s: %s" % (what, name,
                                                 sorted(need - seen), out))
        seen.add(name)
    if ok:
        if raised is not None:
            msgs.append("topological_order() of acyclic %s raises %r"
                        % (what, raised))
        elif seen != members or len(out) != len(members):
            msgs.append("topological_order() of acyclic %s yields %s, members"
                        " are %s" % (what, out, sorted(members)))
    elif raised is None:
        msgs.append("topological_order() of cyclic %s does not raise (yields "
                    "%s)" % (what, out))
    return ok, msgs


def check_list(top, all_edges, nested_chain):
    """parse list() output of an acyclic tree"""
    msgs = []
    try:
        with seq.captured() as buf:
            top.list()
    except Exception as exc:
        return ["list() raises %r on an acyclic tree" % (exc,)]
    lines = [l for l in buf.getvalue().splitlines() if l.strip()]
    ids = {}
    order = []
    open_scheds = []
    schednames = {s_.vname for s_ in nested_chain}
    inside = collections.defaultdict(list)
    for l in lines:
        toks = l.split()
        if len(toks) > 1 and toks[1] == '--end--':
            m = re.search(r'<\w+ `([^`]*)`>', l)
            if not open_scheds or m is None or open_scheds[-1] != m.group(1):
                msgs.append("list(): unbalanced --end-- line %r" % l)
            else:
                open_scheds.pop()
            continue
        m = LINE.match(l)
        if not m:
            msgs.append("list(): cannot parse line %r" % l)
            continue
        sid, label = m.group(1), m.group(2)
        if label in ids:
            msgs.append("list() shows %s twice" % label)
        try:
            ids[label] = int(sid)
        except ValueError:
            msgs.append("list(): id %r of %s is not a number" % (sid, label))
            continue
        order.append(label)
        for s in open_scheds:
            inside[s].append(label)
        if label in schednames:
            open_scheds.append(label)
    nums = [ids[l] for l in order if l in ids]
    if nums != list(range(1, len(nums) + 1)):
        msgs.append("list() numbers jobs %s in printing order, expected "
                    "1..%d increasing" % (nums, len(nums)))
    expected = {j.vname for j in top.iterate_jobs()} | \
        {s.vname for s in nested_chain}
    if set(ids) != expected:
        msgs.append("list() shows %s, the tree holds %s"
                    % (sorted(ids), sorted(expected)))
    for a, b in all_edges:
        if a in ids and b in ids and ids[a] >= ids[b]:
            msgs.append("list() numbers %s (%d) after %s (%d) which requires "
                        "it" % (a, ids[a], b, ids[b]))
    for s in nested_chain:
        want = {j.vname for j in s.iterate_jobs(scan_schedulers=True)} \
            - {s.vname}
        if set(inside[s.vname]) != want:
            msgs.append("list(): jobs shown inside %s are %s, expected %s"
                        % (s.vname, sorted(inside[s.vname]), sorted(want)))
    return msgs


def _one_graph(place, toppure, n, edges, res, hollow=None, verbose=False):
    rep = {'kind': 'graph', 'place': place, 'toppure': toppure, 'n': n,
           'edges': [list(e) for e in edges], 'hollow': hollow,
           'verbose': verbose}
    top, holder, jobs, chain = build(place, toppure, n, edges, hollow,
                                     verbose)
    if hollow is not None:
        chain = chain + [jobs[hollow]]
    named = {(NAMES[i], NAMES[j]) for i, j in edges}
    ok = seq.acyclic({NAMES[i] for i in range(n)}, named)
    msgs = []
    # the verdicts
    exp_top = ok if (place == 'top' or not toppure) else True
    for who, obj, exp in [('top', top, exp_top)] + (
            [('holder', holder, ok)] if holder is not top else []):
        for attempt in (1, 2):
            try:
                got = obj.check_cycles()
            except Exception as exc:
                msgs.append("check_cycles() of %s (%s, call %d) raises %r "
                            "instead of returning a bool"
                            % (who, type(obj).__bases__[0].__name__, attempt,
                               exc))
                continue
            if got is not exp:
                msgs.append("check_cycles() of %s (%s, call %d) returns %r, "
                            "the graph is %s" % (
                                who, type(obj).__bases__[0].__name__, attempt,
                                got, 'acyclic' if exp else 'cyclic'))
    _, m2 = check_topo(holder, named, res, rep, 'the scheduler holding the '
                       'graph')
    msgs += m2
    if ok:
        all_edges = set(named)
        for s in chain:
            for r in s.required:
                all_edges.add((r.vname, s.vname))
        for j in top.iterate_jobs():
            for r in j.required:
                all_edges.add((r.vname, j.vname))
        msgs += check_list(top, all_edges, chain)
    res['execs'] += 1
    res['trans'] += 1
    res['validated'] += 1
    res['states'] += 1
    if not ok or len(edges) >= 2:
        res['nontrivial'] += 1
    for m in msgs[:2]:
        key = 'c15:' + m.split('(')[0].split(' ')[0] + (
            ':nested' if place != 'top' else '')
        seq.add_violation(res, key, "%s | %s graph on %d nodes, edges "
                          "(i,j: j requires i) %s, top=%s%s"
                          % (m, place, n, sorted(edges),
                             'PureScheduler' if toppure else 'Scheduler',
                             ('' if hollow is None else
                              ', node %s is an empty nested Scheduler'
                              % NAMES[hollow])
                             + (', verbose schedulers' if verbose else '')),
                          rep)


def one_graph(place, toppure, n, edges, res, hollow=None, verbose=False):
    with seq.captured():
        _, hang = seq.guarded(_one_graph, place, toppure, n, edges, res,
                              hollow, verbose)
    if hang:
        seq.add_violation(res, 'c15:hang', "%s | %s graph on %d nodes, edges "
                          "(i,j: j requires i) %s, top=%s"
                          % (hang, place, n, sorted(edges),
                             'PureScheduler' if toppure else 'Scheduler'),
                          {'kind': 'graph', 'place': place,
                           'toppure': toppure, 'n': n,
                           'edges': [list(e) for e in edges]})


# ------------------------------------------------------------ edit histories
def apply_history(n, hist):
    out, hang = seq.guarded(_apply_history, n, hist)
    if hang:
        return None, None, set(), ["%s after history %s" % (hang, hist)]
    return out


def _apply_history(n, hist):
    """fresh objects, replay the history; returns (top, jobs, model edges,
    messages of the last step)"""
    jobs = [SJob(NAMES[i], i) for i in range(n)]
    top = SSched('top', 0, *jobs)
    model = set()
    msgs = []
    for op in hist:
        msgs = []
        kind, i, j = op
        if kind == 'toggle':
            if (i, j) in model:
                jobs[j].requires(jobs[i], remove=True)
                model.discard((i, j))
            else:
                jobs[j].requires(jobs[i])
                model.add((i, j))
        elif kind == 'self':
            jobs[i].requires(jobs[i])
        real = {(NAMES.index(a), NAMES.index(b))
                for a, b in seq.edges_of(jobs)}
        if real != model:
            msgs.append("after %s the requirement edges are %s, expected %s"
                        % (op, sorted(real), sorted(model)))
        named = {(NAMES[a], NAMES[b]) for a, b in model}
        ok = seq.acyclic({NAMES[k] for k in range(n)}, named)
        try:
            got = top.check_cycles()
        except Exception as exc:
            got = exc
        if got is not ok:
            msgs.append("check_cycles() returns %r after history %s; graph %s "
                        "is %s" % (got, hist, sorted(model),
                                   'acyclic' if ok else 'cyclic'))
        _, m2 = check_topo(top, named, None, None, 'the edited scheduler')
        msgs += m2
        if ok:
            msgs += ["after history %s: %s" % (hist, m)
                     for m in check_list(top, named, [])]
    return top, jobs, model, msgs


def canon(jobs, model):
    return (frozenset(model), tuple(j._s_mark for j in jobs),
            tuple(frozenset(s.vname for s in j._s_successors) for j in jobs))


def edit_search(n, res):
    ops = [('toggle', i, j) for i in range(n) for j in range(n) if i != j] \
        + [('self', i, i) for i in range(n)]
    _, jobs, model, _ = apply_history(n, [])
    seen = {canon(jobs, model)}
    frontier = collections.deque([[]])
    while frontier and not res.get('abort'):
        hist = frontier.popleft()
        for op in ops:
            if res.get('abort'):
                break
            h2 = hist + [op]
            _, jobs, model, msgs = apply_history(n, h2)
            if jobs is None:
                seq.add_violation(res, 'c15:edit:hang', msgs[0],
                                  {'kind': 'edits', 'n': n, 'history': h2})
                continue
            res['trans'] += 1
            res['validated'] += 1
            res['execs'] += 1
            for m in msgs[:1]:
                seq.add_violation(res, 'c15:edit:' + m.split('(')[0]
                                  .split(' ')[0], m,
                                  {'kind': 'edits', 'n': n, 'history': h2})
            k = canon(jobs, model)
            if k not in seen:
                seen.add(k)
                frontier.append(h2)
                if not seq.acyclic(range(n), model):
                    res['nontrivial'] += 1
    res['states'] += len(seen)
    if not res['samples']:
        res['samples'].append({'edit_search_nodes': n, 'states': len(seen),
                               'last_history': [list(o) for o in hist]})


def run_item(item):
    res = seq.new_result()
    if item['kind'] == 'edits':
        edit_search(item['n'], res)
        return res
    graphs = list(seq.digraphs(item['n'], item['loops']))
    lo, hi = item['range']
    for edges in graphs[lo:hi]:
        if res.get('abort'):
            break
        one_graph(item['place'], item['toppure'], item['n'], edges, res)
        if item['n'] <= 3:
            one_graph(item['place'], item['toppure'], item['n'], edges, res,
                      verbose=True)
        if item['n'] <= 3 and not item['loops']:
            for h in range(item['n']):
                one_graph(item['place'], item['toppure'], item['n'], edges,
                          res, hollow=h)
    res['scenarios'] = hi - lo
    res['outcomes'] = hi - lo
    if lo == 0 and item['n'] == 3 and not item['loops']:
        res['samples'].append({'placement': item['place'],
                               'top': 'PureScheduler' if item['toppure']
                               else 'Scheduler', 'example_edges':
                               [list(e) for e in graphs[min(37, hi - 1)]]})
    return res


def items(tier, seed):
    th = tier == 'thorough'
    sizes = [(1, False), (2, False), (3, False), (4, False), (1, True),
             (2, True), (3, True)]
    if th:
        sizes.append((5, False))
    for n, loops in sizes:
        pairs = n * n if loops else n * (n - 1)
        total = 1 << pairs
        step = 2048 if total > 4096 else 512
        for place in ('top', 'd1', 'd2'):
            for toppure in (False, True):
                if n == 5 and (place == 'd2' or (place == 'd1' and toppure)):
                    continue
                for lo in range(0, total, step):
                    yield {'kind': 'graph', 'n': n, 'loops': loops,
                           'place': place, 'toppure': toppure,
                           'range': (lo, min(total, lo + step))}
    yield {'kind': 'edits', 'n': 3}
    if th:
        yield {'kind': 'edits', 'n': 4}


def replay(rep):
    res = seq.new_result()
    if rep['kind'] == 'edits':
        hist = [tuple(o) for o in rep['history']]
        _, _, _, msgs = apply_history(rep['n'], hist)
        return sorted(msgs)
    one_graph(rep['place'], rep['toppure'], rep['n'],
              [tuple(e) for e in rep['edges']], res, rep.get('hollow'),
              rep.get('verbose', False))
    return sorted(v['msg'] for v in res['violations'])


def describe(rep):
    return "replay record: %r" % {k: v for k, v in rep.items()
                                  if k not in ('message',)}
