"""C11 -- clean exit: once a run is over, nothing it started is still
running"""
from . import _base
from .. import monitors, spaces

ID = 'C11'
RULE = _base.SPACE_TEXT + (
    "crash-point quantifier: a parent that ends by success-with-forever-"
    "nested, by a critical sibling, or by timeout at every integer instant "
    "relative to the nested run's phases (main loop dur 2-3, its own "
    "cancellations with cancel_delay, its shutdown with sd 1-3), depth <=3; "
    "the same ends for the second run of a tree already run once. "
    "oracle: at the exit event of every scheduler no job inside it (any "
    "depth) is between body entry and exit, no handler between sd_begin and "
    "sd_end, none starts later; when run() returned every task the factory "
    "recorded is done; the drain phase logs no job event. non-trivial = a "
    "scheduler's run was cancelled by its enclosing scheduler")
globals().update(_base.std(monitors.c11, drain=True))

JOB = {'dur': [0, 2, 3, 'never'], 'cdelay': [1], 'sd': [1, 3],
       'forever': [True], 'out': ['raise'], 'critical': [True],
       'k': ['coro']}

# forced configurations of the nested scheduler 'n' (and 'm') that stretch
# each phase of its run over virtual time
STRETCH = [
    [],
    [('x', 'dur', 3), ('y', 'dur', 3), ('p', 'dur', 3)],
    [('n', 'timeout', 1), ('x', 'cdelay', 1), ('y', 'cdelay', 1),
     ('x', 'dur', 3), ('p', 'cdelay', 1), ('p', 'dur', 3)],
    [('x', 'sd', 3), ('y', 'sd', 1), ('n', 'sdt', 2), ('p', 'sd', 3),
     ('m', 'sdt', 2)],
    [('x', 'sd', 3), ('x', 'k', 'coro'), ('n', 'sdt', 0), ('p', 'sd', 3),
     ('p', 'k', 'coro'), ('m', 'sdt', 0), ('a', 'sd', 3), ('a', 'k', 'coro'),
     ('top', 'sdt', 0)],
    [('x', 'out', 'raise'), ('x', 'critical', True), ('x', 'dur', 2),
     ('y', 'dur', 3), ('y', 'cdelay', 1)],
]
INNER = {'dur': [0, 2, 3], 'cdelay': [1], 'sd': [1, 3], 'out': ['raise'],
         'critical': [True], 'k': ['coro']}
NEST = {'timeout': [1, 2], 'sdt': [0, 2], 'window': [1], 'critical': [True]}


def tstretch(where, Ts):
    return {'parts': [('mods', {'alts': [[(where, 'timeout', T)]
                                         for T in Ts]}),
                      ('mods', {'alts': STRETCH})]}


def items(tier, seed, rerun=True):
    th = tier == 'thorough'
    # flat: slow cancellations and slow handlers
    yield from spaces.mk(['flat123'], force='none', job_open=JOB,
                         top_open={'timeout': [0, 1, 2, 3], 'window': [1],
                                   'sdt': [0, 2, None], 'k': ['nest']},
                         nest_open={}, k=2, bound=3 if th else 2)
    # parent ends at every instant 0..4 by timeout, while the nested run is
    # in each of its phases
    yield from spaces.mk(['nest21'], force='product',
                         fargs=tstretch('top', (0, 1, 2, 3, 4)),
                         job_open=INNER, top_open={'sdt': [0, 2], 'window': [1]},
                         nest_open=NEST, k=2 if th else 1, bound=2)
    yield from spaces.mk(['nest22'], force='product',
                         fargs=tstretch('top', (0, 1, 2, 3, 4)),
                         job_open=INNER, top_open={'sdt': [0, 2], 'window': [1]},
                         nest_open=NEST, k=1, bound=3 if th else 2)
    yield from spaces.mk(['nest32'], force='product',
                         fargs=tstretch('top', (0, 1, 2, 3, 4)),
                         job_open=INNER, top_open={'sdt': [0, 2], 'window': [1]},
                         nest_open=NEST, k=1 if th else 0, bound=2)
    # parent ends by success while the nested scheduler is forever, or by a
    # critical sibling
    fv = {'parts': [('mods', {'alts': [[('n', 'forever', True)]]}),
                    ('mods', {'alts': STRETCH})]}
    yield from spaces.mk(['nest22'], force='product', fargs=fv,
                         job_open=dict(INNER, dur=[0, 2, 3, 'never']),
                         top_open={'sdt': [0, 2], 'window': [1]}, nest_open=NEST,
                         k=2 if th else 1, bound=2)
    yield from spaces.mk(['nest32'], force='product', fargs=fv,
                         job_open=INNER, top_open={'sdt': [0, 2], 'window': [1]},
                         nest_open=NEST, k=1 if th else 0, bound=2)
    cs = {'parts': [('each_job', {'mods': [('out', 'raise'),
                                           ('critical', True)]}),
                    ('mods', {'alts': STRETCH})]}
    yield from spaces.mk(['nest22'], force='product', fargs=cs,
                         job_open={'dur': [0, 2, 3], 'cdelay': [1],
                                   'sd': [1, 3]},
                         top_open={'sdt': [0, 2], 'window': [1]}, nest_open=NEST,
                         k=2 if th else 1, bound=2)
    yield from spaces.mk(['nest32'], force='product', fargs=cs,
                         job_open={'dur': [2], 'cdelay': [1]}, top_open={},
                         nest_open={'critical': [True]},
                         k=1 if th else 0, bound=2)
    for where in ('top', 'n'):
        yield from spaces.mk(['deep3'], force='product',
                             fargs=tstretch(where, (1, 2, 3)),
                             job_open={'dur': [0, 2, 3], 'cdelay': [1],
                                       'sd': [1, 3]},
                             top_open={'sdt': [0, 2], 'window': [1]},
                             nest_open={'timeout': [1, 2], 'sdt': [0, 2],
                                        'forever': [True]},
                             k=1 if th else 0, bound=2)
    # non-initial state: the same tree has already been run once (the
    # library resets its per-run marks in co_run); the second run is ended
    # by its timeout at every instant, or by a critical job
    if not rerun:
        return
    rr = [('', 'rerun', True)]
    again = {'parts': [('mods', {'alts': [rr + [('top', 'timeout', T)]
                                          for T in (1, 2, 3)] +
                                 [rr + [('a', 'out', 'raise'),
                                        ('a', 'critical', True),
                                        ('a', 'dur', D)] for D in (1, 2)]}),
                       ('mods', {'alts': STRETCH[:4]})]}
    yield from spaces.mk(['flat23'], force='mods',
                         fargs={'alts': [rr + [('top', 'timeout', T)]
                                         for T in (1, 2)]},
                         job_open={'dur': [0, 2, 3], 'cdelay': [1],
                                   'sd': [1, 3]},
                         top_open={'sdt': [0, 2], 'window': [1]},
                         nest_open={}, k=1, bound=2)
    yield from spaces.mk(['nest22', 'nest21'], force='product', fargs=again,
                         job_open={'dur': [0, 2, 3], 'cdelay': [1]},
                         top_open={'sdt': [0, 2]},
                         nest_open={'timeout': [1, 2], 'window': [1]},
                         k=1, bound=2)
    yield from spaces.mk(['deep3'], force='product', fargs=again,
                         job_open={'dur': [2, 3]}, top_open={},
                         nest_open={}, k=1 if th else 0, bound=2)
