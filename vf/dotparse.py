"""
Independent parser for the subset of the DOT language that dot_format() is
meant to emit: digraph / nested subgraphs, node statements with attribute
lists, edge statements a -> b with optional attribute lists, `graph [...]`
attribute statements and `ID = ID` assignments.  Quoted strings may contain
escaped quotes and raw newlines.
"""


class DotError(Exception):
    pass


def tokenize(text):
    i, n = 0, len(text)
    toks = []
    while i < n:
        c = text[i]
        if c.isspace():
            i += 1
        elif text.startswith('//', i) or (c == '#' and (
                i == 0 or text[i - 1] == '\n')):
            j = text.find('\n', i)
            i = n if j < 0 else j + 1
        elif text.startswith('/*', i):
            j = text.find('*/', i + 2)
            if j < 0:
                raise DotError("unterminated comment starting at %d" % i)
            i = j + 2
        elif c == '"':
            j = i + 1
            out = []
            while True:
                if j >= n:
                    raise DotError("unterminated string starting at %d" % i)
                if text[j] == '\\' and j + 1 < n and text[j + 1] == '"':
                    out.append('"')
                    j += 2
                elif text[j] == '"':
                    break
                else:
                    out.append(text[j])
                    j += 1
            toks.append(('str', ''.join(out)))
            i = j + 1
        elif text.startswith('->', i):
            toks.append(('op', '->'))
            i += 2
        elif c in '{}[]=,;':
            toks.append(('op', c))
            i += 1
        elif c.isalnum() or c in '_.':
            j = i
            while j < n and (text[j].isalnum() or text[j] in '_.'):
                j += 1
            toks.append(('id', text[i:j]))
            i = j
        else:
            raise DotError("unexpected character %r at %d" % (c, i))
    return toks


class Graph:
    def __init__(self, name, parent=None):
        self.name = name
        self.parent = parent
        self.attrs = {}          # from `graph [...]` and `k = v`
        self.nodes = []          # (id, attrs)
        self.edges = []          # (a, b, attrs)
        self.subs = []

    def chain(self):
        out, g = [], self
        while g is not None and g.parent is not None:
            out.append(g.name)
            g = g.parent
        return list(reversed(out))

    def walk(self):
        yield self
        for s in self.subs:
            yield from s.walk()


class Parser:
    def __init__(self, text):
        self.t = tokenize(text)
        self.i = 0

    def peek(self):
        return self.t[self.i] if self.i < len(self.t) else (None, None)

    def next(self):
        tok = self.peek()
        self.i += 1
        return tok

    def expect(self, kind, val=None):
        k, v = self.next()
        if k != kind or (val is not None and v != val):
            raise DotError("expected %s %r, got %s %r (token %d)"
                           % (kind, val, k, v, self.i - 1))
        return v

    def ident(self):
        k, v = self.next()
        if k not in ('id', 'str'):
            raise DotError("expected an identifier, got %s %r" % (k, v))
        return v

    def parse(self):
        self.expect('id', 'digraph')
        name = self.ident()
        g = Graph(name)
        self.body(g)
        if self.peek()[0] is not None:
            raise DotError("trailing tokens after the graph")
        return g

    def body(self, g):
        self.expect('op', '{')
        while True:
            k, v = self.peek()
            if k is None:
                raise DotError("missing }")
            if (k, v) == ('op', '}'):
                self.next()
                return
            if (k, v) == ('op', ';'):
                self.next()
                continue
            self.stmt(g)

    def alist(self):
        attrs = {}
        self.expect('op', '[')
        while True:
            k, v = self.peek()
            if (k, v) == ('op', ']'):
                self.next()
                return attrs
            if (k, v) in (('op', ','), ('op', ';')):
                self.next()
                continue
            key = self.ident()
            self.expect('op', '=')
            val = self.ident()
            if key in attrs:
                raise DotError("attribute %s given twice" % key)
            attrs[key] = val

    def stmt(self, g):
        k, v = self.peek()
        if (k, v) == ('id', 'subgraph'):
            self.next()
            sub = Graph(self.ident(), g)
            g.subs.append(sub)
            self.body(sub)
            return
        first = self.ident()
        k, v = self.peek()
        if (k, v) == ('op', '='):
            self.next()
            g.attrs[first] = self.ident()
        elif (k, v) == ('op', '->'):
            self.next()
            second = self.ident()
            attrs = self.alist() if self.peek() == ('op', '[') else {}
            g.edges.append((first, second, attrs))
        elif (k, v) == ('op', '['):
            attrs = self.alist()
            if first in ('graph', 'node', 'edge'):
                if first == 'graph':
                    g.attrs.update(attrs)
            else:
                g.nodes.append((first, attrs))
        else:
            g.nodes.append((first, {}))


def parse(text):
    return Parser(text).parse()
