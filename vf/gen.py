"""
Deterministic, exhaustive scenario generators (DESIGN.md §3.5).

shape  : FLAT(n), NEST(p, q), DEEP3  -- all labelled DAGs at each level
attrs  : every scenario with at most k non-default attribute values among an
         explicit menu of "open" values (bounded deviations from a neutral
         default configuration)
filter : admissibility (C03's hypothesis)
"""

import itertools
import copy

JOB_DEFAULT = dict(k='job', dur=1, out='ret', critical=False, forever=False,
                   cdelay=0, sd=0)
SCHED_DEFAULT = dict(critical=False, forever=False, window=None, timeout=None,
                     sdt=1, verbose=False)


def J(name, h, **kw):
    d = dict(JOB_DEFAULT, name=name, hash=h, req=[])
    d.update(kw)
    return d


def S(name, h, nodes, k='nest', **kw):
    d = dict(SCHED_DEFAULT, k=k, name=name, hash=h, req=[], nodes=nodes)
    d.update(kw)
    return d


# ------------------------------------------------------------------- graphs
_dag_cache = {}


def dags(n):
    """all labelled DAGs on nodes 0..n-1, as tuples of edges (i, j) meaning
    j requires i.  n=1,2,3,4 -> 1, 3, 25, 543"""
    if n in _dag_cache:
        return _dag_cache[n]
    pairs = [(i, j) for i in range(n) for j in range(n) if i != j]
    out = []
    for mask in range(1 << len(pairs)):
        edges = tuple(p for b, p in enumerate(pairs) if mask >> b & 1)
        if _acyclic(n, edges):
            out.append(edges)
    _dag_cache[n] = out
    return out


def _acyclic(n, edges):
    req = {j: set() for j in range(n)}
    for i, j in edges:
        req[j].add(i)
    done = set()
    while len(done) < n:
        new = [j for j in range(n) if j not in done and req[j] <= done]
        if not new:
            return False
        done.update(new)
    return True


def dags_unlabelled_reps(n):
    """one representative per isomorphism class of labelled DAGs on n nodes"""
    seen = set()
    out = []
    for edges in dags(n):
        best = min(tuple(sorted((p[i], p[j]) for i, j in edges))
                   for p in itertools.permutations(range(n)))
        if best not in seen:
            seen.add(best)
            out.append(best)
    return out


def _set_reqs(nodes, edges):
    for i, j in edges:
        nodes[j]['req'].append(nodes[i]['name'])


TOPN = 'abcdefgh'
INN = 'xyzwvu'
DEEPN = 'pqrs'


def flat_shapes(n, topkind='pure'):
    for edges in dags(n):
        nodes = [J(TOPN[i], i) for i in range(n)]
        _set_reqs(nodes, edges)
        yield {'tree': S('top', 0, nodes, k=topkind), 'thash': 'asc'}


def sparse_shapes(n, max_edges, topkind='pure'):
    """all labelled DAGs on n nodes with at most max_edges edges"""
    pairs = [(i, j) for i in range(n) for j in range(n) if i != j]
    for r in range(max_edges + 1):
        for edges in itertools.combinations(pairs, r):
            if _acyclic(n, edges):
                nodes = [J(TOPN[i], i) for i in range(n)]
                _set_reqs(nodes, edges)
                yield {'tree': S('top', 0, nodes, k=topkind), 'thash': 'asc'}


def nest_shapes(p, q, positions=None, outer_dags=None, inner_dags=None,
                topkind='pure'):
    """parent with p nodes, the one at `pos` being a nested scheduler with q
    jobs; all labelled DAGs at both levels"""
    positions = range(p) if positions is None else positions
    for pos in positions:
        for oe in (dags(p) if outer_dags is None else outer_dags):
            for ie in (dags(q) if inner_dags is None else inner_dags):
                inner = [J(INN[i], i) for i in range(q)]
                _set_reqs(inner, ie)
                nodes = []
                for i in range(p):
                    if i == pos:
                        nodes.append(S('n', i, inner))
                    else:
                        nodes.append(J(TOPN[i], i))
                _set_reqs(nodes, oe)
                yield {'tree': S('top', 0, copy.deepcopy(nodes), k=topkind),
                       'thash': 'asc'}


def deep3_shapes(topkind='pure'):
    """top{ [a] n{ [x] m{ p [q] } } } with every optional sibling absent or
    present and related to the nested scheduler in each of the 3 ways"""
    REL = ('none', 'before', 'after')     # sibling vs nested scheduler

    def level(name, h, sib, rel, inner_nodes):
        sched = S(name, 1, inner_nodes)
        if sib is None:
            return [sched]
        job = J(sib, 0)
        if rel == 'before':
            sched['req'].append(sib)
        elif rel == 'after':
            job['req'].append(name)
        return [job, sched]

    opts = [(None, 'none')] + [(True, r) for r in REL]
    for (a, ra), (x, rx), two in itertools.product(opts, opts,
                                                   (False, True, 'par')):
        m_nodes = [J('p', 0)]
        if two:
            m_nodes.append(J('q', 1, req=[] if two == 'par' else ['p']))
        n_nodes = level('m', 1, 'x' if x else None, rx, m_nodes)
        t_nodes = level('n', 1, 'a' if a else None, ra, n_nodes)
        yield {'tree': S('top', 0, t_nodes, k=topkind), 'thash': 'asc'}


# --------------------------------------------------------------- attributes
def walk(node, parent=None):
    yield node, parent
    for c in node.get('nodes', ()):
        yield from walk(c, node)


def nodes_of(scn):
    return {n['name']: n for n, _ in walk(scn['tree'])}


def is_sched(node):
    return 'nodes' in node


def open_menu(scn, job_open, sched_open, top_open=None):
    """list of (name, attr, value) that may deviate from the default.
    job_open / sched_open: dict attr -> list of non-default values;
    top_open applies to the top scheduler (defaults to sched_open minus
    critical/forever which are meaningless for a PureScheduler)"""
    menu = []
    for node, parent in walk(scn['tree']):
        if is_sched(node):
            if parent is None:
                table = sched_open if top_open is None else top_open
            else:
                table = sched_open
        else:
            table = job_open
        for attr, values in table.items():
            if parent is None and attr in ('critical', 'forever') \
                    and node['k'] == 'pure':
                continue
            for v in values:
                if node.get(attr) != v:
                    menu.append((node['name'], attr, v))
    return menu


def apply_mods(scn, mods):
    new = copy.deepcopy(scn)
    byname = nodes_of(new)
    for name, attr, v in mods:
        if name == '':
            new[attr] = v
        else:
            byname[name][attr] = v
    return new


def deviations(menu, k):
    """all subsets of the menu with <= k entries, at most one value per
    (node, attr)"""
    yield ()
    for r in range(1, k + 1):
        for combo in itertools.combinations(menu, r):
            keys = {(n, a) for n, a, _ in combo}
            if len(keys) == r:
                yield combo


def variants(scn, menu, k):
    for mods in deviations(menu, k):
        yield apply_mods(scn, mods), mods


# ------------------------------------------------------------ admissibility
def requires_closure(sched, name):
    byname = {n['name']: n for n in sched['nodes']}
    out, todo = set(), list(byname[name]['req'])
    while todo:
        r = todo.pop()
        if r not in out:
            out.add(r)
            todo.extend(byname[r]['req'])
    return out


def shutdown_bounded(node):
    """the shutdown phase of this scheduler ends by itself"""
    return node.get('sdt', 1) is not None or not any(
        (not is_sched(k)) and k.get('sd') == 'never' for k in node['nodes'])


def terminates(node):
    """does this node end by itself (given that cancellation is honoured)?"""
    if not is_sched(node):
        return node['dur'] != 'never'
    if not shutdown_bounded(node):
        return False
    if node.get('timeout') is not None:
        return True
    if not node['nodes']:
        return True
    regular = [n for n in node['nodes'] if not n['forever']]
    if not regular:
        return False
    byname = {n['name']: n for n in node['nodes']}
    for n in regular:
        if not terminates(n):
            return False
        for r in requires_closure(node, n['name']):
            if not terminates(byname[r]):
                return False
    return True


def windows_ok(node):
    if not is_sched(node):
        return True
    w = node.get('window')
    if w:
        stuck = sum(1 for n in node['nodes'] if not terminates(n))
        if stuck >= w:
            return False
    return all(windows_ok(n) for n in node['nodes'])


def subtree_ok(node):
    """admissibility of everything below a scheduler that has a timeout is
    not required for termination, but windows must still make sense"""
    return True


def admissible(scn):
    """C03's hypothesis: run() must terminate"""
    tree = scn['tree']
    if not _adm(tree):
        return False
    return True


def _adm(node):
    if not is_sched(node):
        return True
    if not shutdown_bounded(node):
        return False
    if node.get('timeout') is not None:
        # a scheduler with a timeout terminates whatever its jobs do
        return True
    if not terminates(node):
        return False
    w = node.get('window')
    if w:
        stuck = sum(1 for n in node['nodes'] if not terminates(n))
        if stuck >= w:
            return False
    # nested schedulers that this one really waits for must be admissible;
    # forever ones get cancelled, whatever state they are in
    return all(_adm(n) for n in node['nodes'] if is_sched(n))


def has_attr(scn, pred):
    return any(pred(n) for n, _ in walk(scn['tree']))


def short(scn):
    """compact one-line rendering of a scenario for samples and messages"""
    def r(node):
        flags = ''
        if is_sched(node):
            if node.get('critical'):
                flags += '!'
            if node.get('forever'):
                flags += '8'
            a = []
            if node.get('window'):
                a.append('w%s' % node['window'])
            if node.get('timeout') is not None:
                a.append('T%s' % node['timeout'])
            if node.get('sdt', 1) != 1:
                a.append('sdt%s' % node['sdt'])
            if node.get('verbose') or node.get('watch'):
                a.append(('v' if node.get('verbose') else '')
                         + ('W' if node.get('watch') else ''))
            req = ('<' + ','.join(node['req'])) if node['req'] else ''
            return '%s%s%s[%s]{%s}' % (node['name'], flags, req, ' '.join(a),
                                       ' '.join(r(n) for n in node['nodes']))
        if node.get('critical'):
            flags += '!'
        if node.get('forever'):
            flags += '8'
        if node['k'] == 'coro':
            flags += 'c'
        elif node['k'] == 'print':
            flags += 'p'
        s = '%s%s:%s' % (node['name'], flags, node['dur'])
        if node['out'] == 'raise':
            s += 'X'
        elif node['out'] == 'raise_empty':
            s += 'X0'
        elif node['out'] == 'raise_base':
            s += 'XB'
        elif node['out'] == 'selfcancel':
            s += 'XC'
        if node.get('cx'):
            s += '/cx'
        if node.get('cdelay'):
            s += '/cd%s' % node['cdelay']
        if node.get('sd'):
            s += '/sd%s' % node['sd']
        if node['req']:
            s += '<' + ','.join(node['req'])
        return s
    t = scn['tree']
    return ('P:' if t['k'] == 'pure' else 'S:') + r(t) + \
        ('' if scn.get('thash', 'asc') == 'asc' else ' thash=%s' % scn['thash']) \
        + ('' if not scn.get('pre') else ' pre=%s' % (scn['pre'],)) \
        + ('' if not scn.get('late') else ' late=%s' % (scn['late'],)) \
        + ('' if not scn.get('peek') else ' peek=%s' % scn['peek']) \
        + ('' if not scn.get('build') else ' build=%s' % scn['build']) \
        + ('' if not scn.get('rerun') else ' rerun' if scn['rerun'] is True
           else ' rerun-' + str(scn['rerun'])) \
        + ('' if not scn.get('dangle') else ' dangle=%s' % (scn['dangle'],))
